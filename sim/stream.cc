// Engine `stream`: C17 (CRC / hash running value over a fragmented stream) and C18 (UTF-8 codec over a
// fragmented, truncated and - separately - corrupted stream, decoder buffer against an inaccessible page).
#include "core/core.h"
#include "core/simalloc.h"
#include "core/driver.h"
#include <sys/mman.h>
#include <unistd.h>
extern "C" {
#include "a/crc.h"
#include "a/hash.h"
#include "a/utf.h"
#include "a/str.h"
}

namespace sim {

SimAlloc SA;

enum StreamOp { X_FRAG, X_EMPTY, X_REST, U_DELIVER, U_READ, U_CORRUPT, U_TRUNCATE, U_SINGLE, U_MALFORMED, U_STROBJ, X__COUNT };
static char const *const STREAM_OP_NAMES[] = {"frag", "empty", "rest", "deliver", "read", "corrupt", "truncate", "single", "malformed", "strobj"};
static inline uint64_t mag64(int64_t v) { return (uint64_t)(v < 0 ? -v : v); }

// ---- bitwise references (independent of the library's tables and of a_uN_rev)
static uint64_t ref_rev(uint64_t x, int w) { uint64_t r = 0; for (int i = 0; i < w; ++i) if (x & (1ull << i)) r |= 1ull << (w - 1 - i); return r; }
static uint64_t wmask(int w) { return w == 64 ? ~0ull : ((1ull << w) - 1); }
static uint64_t ref_crc_m(int w, uint64_t poly, unsigned char const *p, size_t n, uint64_t v)
{
    uint64_t const top = 1ull << (w - 1), mk = wmask(w);
    for (size_t i = 0; i < n; ++i)
    {
        v ^= (uint64_t)p[i] << (w - 8);
        for (int b = 0; b < 8; ++b) v = (v & top) ? (((v << 1) ^ poly) & mk) : ((v << 1) & mk);
    }
    return v & mk;
}
static uint64_t ref_crc_l(int w, uint64_t poly, unsigned char const *p, size_t n, uint64_t v)
{
    uint64_t const rp = ref_rev(poly, w);
    for (size_t i = 0; i < n; ++i)
    {
        v ^= p[i];
        for (int b = 0; b < 8; ++b) v = (v & 1) ? ((v >> 1) ^ rp) : (v >> 1);
    }
    return v & wmask(w);
}

struct CrcSim
{
    Ctx &c;
    explicit CrcSim(Ctx &c_) : c(c_) {}
    int w = 32; uint64_t poly = 0, init = 0;
    std::vector<unsigned char> msg, rmsg; // message and its bit-reflected bytes
    void *tm = nullptr, *tl = nullptr;
    uint64_t vm = 0, vl = 0, vr = 0; uint32_t hb = 0, hs = 0, hbs = 0, hss = 0;
    size_t pos = 0; bool nulfree = true;

    uint64_t run_m(void const *p, size_t n, uint64_t v)
    {
        switch (w)
        {
        case 8: c.site("a_crc8"); return a_crc8((a_u8 const *)tm, p, n, (a_u8)v);
        case 16: c.site("a_crc16m"); return a_crc16m((a_u16 const *)tm, p, n, (a_u16)v);
        case 32: c.site("a_crc32m"); return a_crc32m((a_u32 const *)tm, p, n, (a_u32)v);
        default: c.site("a_crc64m"); return a_crc64m((a_u64 const *)tm, p, n, v);
        }
    }
    uint64_t run_l(void const *p, size_t n, uint64_t v)
    {
        switch (w)
        {
        case 8: c.site("a_crc8"); return a_crc8((a_u8 const *)tl, p, n, (a_u8)v);
        case 16: c.site("a_crc16l"); return a_crc16l((a_u16 const *)tl, p, n, (a_u16)v);
        case 32: c.site("a_crc32l"); return a_crc32l((a_u32 const *)tl, p, n, (a_u32)v);
        default: c.site("a_crc64l"); return a_crc64l((a_u64 const *)tl, p, n, v);
        }
    }
    uint64_t lib_rev(uint64_t x)
    {
        switch (w) { case 8: return a_u8_rev((a_u8)x); case 16: return a_u16_rev((a_u16)x); case 32: return a_u32_rev((a_u32)x); default: return a_u64_rev(x); }
    }
    bool deliver(size_t n)
    {
        if (n > msg.size() - pos) n = msg.size() - pos;
        // the fragment lives in an exact-size block: reading past it is a red-zone hit
        unsigned char *f = (unsigned char *)SA.halloc(n), *fr = (unsigned char *)SA.halloc(n);
        memcpy(f, msg.data() + pos, n); memcpy(fr, rmsg.data() + pos, n);
        vm = run_m(f, n, vm); vl = run_l(f, n, vl); vr = run_m(fr, n, vr);
        c.site("a_hash_bkdr_"); hb = a_hash_bkdr_(f, n, hb);
        c.site("a_hash_sdbm_"); hs = a_hash_sdbm_(f, n, hs);
        if (nulfree)
        {
            if (n == 0 && (pos & 1))
            { // an empty piece handed over as a null string: the running value must pass through unchanged
                c.site("a_hash_bkdr"); hbs = a_hash_bkdr(nullptr, hbs);
                c.site("a_hash_sdbm"); hss = a_hash_sdbm(nullptr, hss);
                c.st.add("fault.null_string_piece");
            }
            else
            {
                char *z = (char *)SA.halloc(n + 1); memcpy(z, f, n); z[n] = 0;
                c.site("a_hash_bkdr"); hbs = a_hash_bkdr(z, hbs);
                c.site("a_hash_sdbm"); hss = a_hash_sdbm(z, hss);
                SA.hfree(z);
            }
        }
        SA.hfree(f); SA.hfree(fr);
        pos += n; ++c.steps;
        c.st.add(n == 0 ? "fault.empty_delivery" : n == 1 ? "fault.one_byte_fragment" : "fault.fragment");
        return check("fragment");
    }
    bool check(char const *when)
    {
        unsigned char const *m = msg.data();
        char const *wn = w == 8 ? "a_crc8" : w == 16 ? "a_crc16" : w == 32 ? "a_crc32" : "a_crc64";
        uint64_t const rm = ref_crc_m(w, poly, m, pos, init), rl = ref_crc_l(w, poly, m, pos, init);
        if (vm != rm) return c.fail("crc-msb-first-wrong", wn, "after %s at byte %zu: running value %llx, bit-by-bit division gives %llx (width %d poly %llx)", when, pos, (unsigned long long)vm, (unsigned long long)rm, w, (unsigned long long)poly);
        if (vl != rl) return c.fail("crc-lsb-first-wrong", wn, "after %s at byte %zu: running value %llx, bit-by-bit division gives %llx (width %d poly %llx)", when, pos, (unsigned long long)vl, (unsigned long long)rl, w, (unsigned long long)poly);
        // reflection law between the two bit orders, using the library's own bit reversal (itself checked against a bit loop)
        if (lib_rev(vr) != ref_rev(vr, w)) return c.fail("bit-reversal-wrong", "a_uN_rev", "bit reversal of %llx (width %d) differs from a bit loop", (unsigned long long)vr, w);
        if (vl != ref_rev(vr, w)) return c.fail("bit-orders-not-reflections", wn, "LSB-first value %llx is not the reflection of the MSB-first value over reflected data and initial value (%llx)", (unsigned long long)vl, (unsigned long long)ref_rev(vr, w));
        uint32_t b = (uint32_t)init, s = (uint32_t)init;
        for (size_t i = 0; i < pos; ++i) { b = b * 131u + m[i]; s = s * 65599u + m[i]; }
        if (hb != b) return c.fail("hash-running-value-wrong", "a_hash_bkdr_", "after %s at byte %zu: %x, definition gives %x", when, pos, hb, b);
        if (hs != s) return c.fail("hash-running-value-wrong", "a_hash_sdbm_", "after %s at byte %zu: %x, definition gives %x", when, pos, hs, s);
        if (nulfree && (hbs != b || hss != s)) return c.fail("hash-string-form-disagrees", hbs != b ? "a_hash_bkdr" : "a_hash_sdbm", "C-string form and length-delimited form disagree after %zu bytes", pos);
        c.obs(vm); c.obs(vl); c.obs(hb); c.obs(hs);
        return true;
    }
    void exec(Plan const &p)
    {
        SA.reset();
        static const int W[] = {8, 16, 32, 64};
        w = W[mag64(p.knob("wsel", 2)) % 4];
        static const uint64_t KNOWN[4][4] = {{0x07, 0x31, 0x9B, 0x1D}, {0x8005, 0x1021, 0x3D65, 0x8BB7}, {0x04C11DB7u, 0x1EDC6F41u, 0x741B8CD7u, 0x814141ABu}, {0x42F0E1EBA9EA3693ull, 0x000000000000001Bull, 0xAD93D23594C935A9ull, 0x259C84CBA6426349ull}};
        uint64_t const ps = (uint64_t)p.knob("polyseed", 0);
        poly = (ps & 1) ? (splitmix64(ps) & wmask(w)) : KNOWN[mag64(p.knob("wsel", 2)) % 4][(ps >> 1) % 4];
        switch (mag64(p.knob("polyedge", 0)) % 24) { case 1: poly = 0; break; case 2: poly = 1; break; case 3: poly = wmask(w); break; case 4: poly = 1ull << (w - 1); break; default: break; } // degenerate generators are generators too
        if (poly == 0) c.st.add("probe.crc_zero_polynomial");
        uint64_t const is = (uint64_t)p.knob("initsel", 0);
        init = (is % 4 == 0) ? 0 : (is % 4 == 1) ? wmask(w) : (splitmix64(is) & wmask(w));
        if (p.knob("huge4g", 0))
        { // thorough tier only: a message longer than 2^32 bytes (zero pages, never resident) fed at once and in three pieces
            size_t const N = ((size_t)1 << 32) + 13 + (size_t)(mag64(p.knob("msglen", 16)) % 64);
            unsigned char *big = (unsigned char *)mmap(nullptr, N, PROT_READ | PROT_WRITE, MAP_PRIVATE | MAP_ANONYMOUS | MAP_NORESERVE, -1, 0);
            if (big == MAP_FAILED) { c.st.add("probe.crc_4GiB_message_not_mappable"); return; }
            big[5] = 0x21; big[((size_t)1 << 31) + 3] = 0x5A; big[N - 2] = 0xC3; // three resident pages; the rest stays zero pages
            if (p.knob("huge4g", 0) == 2)
            { // the same for one of the two multiplicative hashes (the length-delimited form; zero bytes have no string form)
                // (a run of 2^32 zero bytes multiplies the running value by 131^(2^32) = 1 (mod 2^32): without the non-zero bytes set
                // above a length truncated to 32 bits would go unnoticed)
                bool const sdbm = (mag64(p.knob("msgseed", 1)) & 1) != 0;
                a_u32 const iv32 = (a_u32)(init ? init : 1);
                size_t const h1 = (size_t)3 << 29, h2 = N - 2 * h1;
                a_u32 whole32, parts32;
                c.site(sdbm ? "a_hash_sdbm_" : "a_hash_bkdr_");
                if (sdbm) { whole32 = a_hash_sdbm_(big, N, iv32); parts32 = a_hash_sdbm_(big + 2 * h1, h2, a_hash_sdbm_(big + h1, h1, a_hash_sdbm_(big, h1, iv32))); }
                else { whole32 = a_hash_bkdr_(big, N, iv32); parts32 = a_hash_bkdr_(big + 2 * h1, h2, a_hash_bkdr_(big + h1, h1, a_hash_bkdr_(big, h1, iv32))); }
                munmap(big, N);
                c.steps += 2; c.st.add("probe.hash_message_longer_than_4GiB");
                if (whole32 != parts32) c.fail("pieces-differ-from-whole", sdbm ? "a_hash_sdbm_" : "a_hash_bkdr_", "a message of %zu bytes hashed at once gives %x, in three pieces %x", N, whole32, parts32);
                c.obs(whole32);
                return;
            }
            size_t const esz0 = (size_t)w / 8;
            tm = SA.halloc(0x100 * esz0); tl = SA.halloc(0x100 * esz0);
            switch (w)
            {
            case 8: a_crc8m_init((a_u8 *)tm, (a_u8)poly); a_crc8l_init((a_u8 *)tl, (a_u8)poly); break;
            case 16: a_crc16m_init((a_u16 *)tm, (a_u16)poly); a_crc16l_init((a_u16 *)tl, (a_u16)poly); break;
            case 32: a_crc32m_init((a_u32 *)tm, (a_u32)poly); a_crc32l_init((a_u32 *)tl, (a_u32)poly); break;
            default: a_crc64m_init((a_u64 *)tm, poly); a_crc64l_init((a_u64 *)tl, poly); break;
            }
            uint64_t const iv = init ? init : 1;
            bool const lsb = (mag64(p.knob("msgseed", 1)) & 1) != 0; // one bit order per item keeps the item inside its CPU budget
            size_t const c1 = (size_t)3 << 29, c2 = N - 2 * c1;
            uint64_t whole, parts;
            if (lsb) { whole = run_l(big, N, iv); parts = run_l(big + 2 * c1, c2, run_l(big + c1, c1, run_l(big, c1, iv))); }
            else { whole = run_m(big, N, iv); parts = run_m(big + 2 * c1, c2, run_m(big + c1, c1, run_m(big, c1, iv))); }
            munmap(big, N);
            c.steps += 2; c.st.add("probe.crc_message_longer_than_4GiB");
            if (whole != parts) c.fail("pieces-differ-from-whole", lsb ? "a_crc_lsb" : "a_crc_msb", "a message of %zu bytes fed at once gives %llx, fed in three pieces %llx (width %d)", N, (unsigned long long)whole, (unsigned long long)parts, w);
            c.obs(whole);
            return;
        }
        size_t n = (size_t)(mag64(p.knob("msglen", 16)) % 301);
        if (p.knob("longmsg", 0)) { n = 65530 + (size_t)(mag64(p.knob("msglen", 16)) % 6000); c.st.add("probe.crc_message_longer_than_64k"); } // lengths that do not fit 16 bits
        uint64_t const ms = (uint64_t)p.knob("msgseed", 1);
        int const pat = (int)(mag64(p.knob("pattern", 0)) % 5);
        msg.resize(n); rmsg.resize(n);
        for (size_t i = 0; i < n; ++i)
        {
            unsigned char b;
            switch (pat) { case 0: b = (unsigned char)splitmix64(ms + i); break; case 1: b = (unsigned char)ms; break; case 2: b = (unsigned char)('0' + (splitmix64(ms + i) % 10)); break; case 3: b = (unsigned char)(1u << ((ms + i) % 8)); break; default: b = (unsigned char)(splitmix64(ms + i) % 255 + 1); break; }
            msg[i] = b; rmsg[i] = (unsigned char)ref_rev(b, 8);
            if (b == 0) nulfree = false;
        }
        size_t const esz = (size_t)w / 8;
        tm = SA.halloc(0x100 * esz); tl = SA.halloc(0x100 * esz);
        // the caller's table memory is arbitrary before initialisation: junk, zeros, ones, a table of another
        // polynomial, or a stale buffer that happens to begin like the table about to be built (entry 0 = 0, entry 1 = poly)
        int const prefill = (int)(mag64(p.knob("prefill", 0)) % 6);
        auto put = [&](void *t, size_t i, uint64_t v) { switch (w) { case 8: ((a_u8 *)t)[i] = (a_u8)v; break; case 16: ((a_u16 *)t)[i] = (a_u16)v; break; case 32: ((a_u32 *)t)[i] = (a_u32)v; break; default: ((a_u64 *)t)[i] = v; break; } };
        for (void *t : {tm, tl})
        {
            if (prefill == 1) memset(t, 0, 0x100 * esz);
            else if (prefill == 2) memset(t, 0xFF, 0x100 * esz);
            else if (prefill == 3) { for (size_t i = 0; i < 0x100; ++i) put(t, i, splitmix64(ps + i)); put(t, 0, 0); put(t, 1, t == tm ? poly : ref_rev(poly, w)); }
            else if (prefill == 4) { put(t, 0, 0); put(t, 1, poly); put(t, 0x80, ref_rev(poly, w)); }
            else if (prefill == 5) { for (size_t i = 0; i < 0x100; ++i) put(t, i, i * 0x0101010101010101ull); }
        }
        c.st.add(std::string("probe.table_prefill_") + std::to_string(prefill));
        switch (w)
        {
        case 8: c.site("a_crc8m_init"); a_crc8m_init((a_u8 *)tm, (a_u8)poly); c.site("a_crc8l_init"); a_crc8l_init((a_u8 *)tl, (a_u8)poly); break;
        case 16: c.site("a_crc16m_init"); a_crc16m_init((a_u16 *)tm, (a_u16)poly); c.site("a_crc16l_init"); a_crc16l_init((a_u16 *)tl, (a_u16)poly); break;
        case 32: c.site("a_crc32m_init"); a_crc32m_init((a_u32 *)tm, (a_u32)poly); c.site("a_crc32l_init"); a_crc32l_init((a_u32 *)tl, (a_u32)poly); break;
        default: c.site("a_crc64m_init"); a_crc64m_init((a_u64 *)tm, poly); c.site("a_crc64l_init"); a_crc64l_init((a_u64 *)tl, poly); break;
        }
        if (uint64_t bad = SA.check_guards()) { c.fail("guard-damaged", "a_crc_init", "table initialisation wrote outside the 256-entry table (block #%llu)", (unsigned long long)bad); return; }
        vm = vl = init; vr = ref_rev(init, w); hb = hs = hbs = hss = (uint32_t)init; pos = 0;
        c.st.state(fnv_mix(fnv_mix(fnv_mix(FNV0, (uint64_t)w), poly), n));
        for (size_t i = 0; i < p.ops.size() && c.ok(); ++i)
        {
            Op const &o = p.ops[i];
            c.opi = (int)i;
            c.st.add(std::string("op.crc.") + STREAM_OP_NAMES[o.kind]);
            c.logf("op %zu %s a=%lld [pos=%zu/%zu]\n", i, STREAM_OP_NAMES[o.kind], (long long)o.a[0], pos, msg.size());
            size_t const left = msg.size() - pos;
            switch (o.kind)
            {
            case X_FRAG: { uint64_t v = mag64(o.a[0]); size_t k = (v & 3) == 0 ? 1 : (v & 3) == 1 ? (size_t)(v >> 2) % 9 : (size_t)(v >> 2) % (left + 1); deliver(k); break; }
            case X_EMPTY: deliver(0); break;
            case X_REST: deliver(left); break;
            default: break;
            }
            c.st.state(fnv_mix(fnv_mix(fnv_mix(FNV0, (uint64_t)w), pos), msg.size()));
        }
        if (c.ok()) { c.opi = (int)p.ops.size(); deliver(msg.size() - pos); } // end of stream: the rest in one piece
        if (c.ok())
        { // and the whole message at once from the initial value
            unsigned char *all = (unsigned char *)SA.halloc(msg.size()); memcpy(all, msg.data(), msg.size());
            uint64_t const one_m = run_m(all, msg.size(), init), one_l = run_l(all, msg.size(), init);
            SA.hfree(all);
            if (one_m != vm || one_l != vl) c.fail("pieces-differ-from-whole", "a_crc", "feeding the message in pieces gave %llx/%llx, feeding it at once %llx/%llx", (unsigned long long)vm, (unsigned long long)vl, (unsigned long long)one_m, (unsigned long long)one_l);
        }
    }
};

// ================================================================================================ C18
static unsigned ref_len(uint32_t cp) { return cp < 0x80 ? 1 : cp < 0x800 ? 2 : cp < 0x10000 ? 3 : cp < 0x200000 ? 4 : cp < 0x4000000 ? 5 : 6; }
static unsigned ref_encode(uint32_t cp, unsigned char *out)
{
    unsigned n = ref_len(cp);
    if (n == 1) { out[0] = (unsigned char)cp; return 1; }
    static const unsigned char lead[] = {0, 0, 0xC0, 0xE0, 0xF0, 0xF8, 0xFC};
    for (unsigned i = n - 1; i >= 1; --i) { out[i] = (unsigned char)(0x80 | (cp & 0x3F)); cp >>= 6; }
    out[0] = (unsigned char)(lead[n] | cp);
    return n;
}
static uint32_t pick_cp(uint64_t v)
{
    static const uint32_t B[] = {0x7F, 0x80, 0x7FF, 0x800, 0xFFFF, 0x10000, 0x1FFFFF, 0x200000, 0x3FFFFFF, 0x4000000, 0x7FFFFFFF, 1, 2, 0x41, 0x20AC, 0x1F600};
    uint32_t cp;
    switch (v % 4)
    {
    case 0: cp = B[(v >> 2) % 16]; break;
    case 1: cp = B[(v >> 2) % 11] + (uint32_t)((v >> 8) % 5) - 2; break;
    case 2: cp = (uint32_t)(splitmix64(v) & 0x7FFFFFFF); break;
    default: cp = (uint32_t)((v >> 2) % 0x900); break;
    }
    cp &= 0x7FFFFFFF;
    return cp ? cp : 1;
}

struct GuardBuf
{ // bytes placed so that the byte after the last one is on an inaccessible page
    unsigned char *base = nullptr; size_t pages = 0, pagesz = 4096;
    GuardBuf()
    {
        pagesz = (size_t)sysconf(_SC_PAGESIZE); pages = 3;
        base = (unsigned char *)mmap(nullptr, pagesz * pages, PROT_READ | PROT_WRITE, MAP_PRIVATE | MAP_ANONYMOUS, -1, 0);
        if (base == MAP_FAILED) abort();
        mprotect(base + pagesz * (pages - 1), pagesz, PROT_NONE);
    }
    ~GuardBuf() { munmap(base, pagesz * pages); }
    unsigned char *place(unsigned char const *p, size_t n)
    {
        if (n > pagesz * (pages - 1)) n = pagesz * (pages - 1);
        unsigned char *dst = base + pagesz * (pages - 1) - n;
        if (n) memcpy(dst, p, n);
        return dst;
    }
};

struct UtfSim
{
    Ctx &c;
    explicit UtfSim(Ctx &c_) : c(c_) {}
    GuardBuf gb;
    std::vector<uint32_t> cps;
    std::vector<unsigned char> wire; // what the writer produced
    std::vector<unsigned char> rx;   // what the reader has received so far
    std::vector<uint32_t> decoded;
    size_t sent = 0, rpos = 0;
    bool corrupt_cfg = false, corrupted = false, truncated = false;

    // the properties that hold for ARBITRARY bytes; returns the decoder's result
    unsigned guarded_decode(unsigned char const *p, size_t n, uint32_t *cp, bool &ok)
    {
        unsigned char *g = gb.place(p, n);
        uint32_t v = 0xFFFFFFFFu;
        c.site("a_utf_decode");
        unsigned const r = a_utf_decode(g, n, &v);
        unsigned const r0 = a_utf_decode(g, n, nullptr);
        ok = false;
        if (r != r0) { c.fail("decode-with-and-without-output-disagree", "a_utf_decode", "returned %u with an output pointer and %u without", r, r0); return r; }
        if (r > n) { c.fail("decoder-reported-more-than-available", "a_utf_decode", "reported %u bytes with %zu available", r, n); return r; }
        if (r > 6) { c.fail("decoder-reported-more-than-six", "a_utf_decode", "reported %u bytes", r); return r; }
        for (unsigned i = 1; i < r; ++i) if ((g[i] & 0xC0) != 0x80) { c.fail("accepted-non-continuation-byte", "a_utf_decode", "accepted a %u-byte sequence whose byte %u is 0x%02x", r, i, g[i]); return r; }
        if (cp) *cp = v;
        ok = true;
        return r;
    }
    bool reader_poll()
    { // decode as much as is available; in the fault-free configuration a 0 means "wait for more bytes"
        for (;;)
        {
            size_t const avail = rx.size() - rpos;
            if (!avail) return true;
            uint32_t cp = 0; bool ok;
            unsigned const r = guarded_decode(rx.data() + rpos, avail > 8 ? 8 : avail, &cp, ok);
            if (!ok) return false;
            ++c.steps;
            if (r == 0)
            {
                if (corrupt_cfg && corrupted) { ++rpos; c.st.add("probe.reader_skipped_undecodable_byte"); continue; }
                c.st.add("probe.reader_waits_for_more_bytes");
                return true;
            }
            decoded.push_back(cp); rpos += r;
        }
    }
    bool check_length_counter(unsigned char const *p, size_t n)
    {
        unsigned char *g = gb.place(p, n);
        a_size stop = (a_size)-1;
        c.site("a_utf_length");
        a_size const cnt = a_utf_length(g, n, &stop);
        // reference: advance by exactly what the decoder reports, stop at the first 0
        size_t pos = 0, k = 0;
        while (pos < n) { unsigned r = a_utf_decode(g + pos, n - pos, nullptr); if (!r) break; pos += r; ++k; if (r > n - pos + r) break; }
        if (stop > n) return c.fail("length-counter-passed-the-end", "a_utf_length", "stopped at %zu with %zu bytes", (size_t)stop, n);
        if (cnt != k || stop != pos) return c.fail("length-counter-wrong", "a_utf_length", "counted %zu code points / stopped at %zu; stepping the decoder gives %zu / %zu", (size_t)cnt, (size_t)stop, k, pos);
        a_size const cnt2 = a_utf_length(g, n, nullptr);
        if (cnt2 != cnt) return c.fail("length-counter-wrong", "a_utf_length", "count differs without a stop pointer");
        if (n >= sizeof(a_size))
        { // the stop cell may overlap the text (no restrict in the interface): the text must have been read before it is written
            a_size cell[40]; size_t const m = n < sizeof cell ? n : sizeof cell;
            memcpy(cell, p, m);
            size_t pos2 = 0, k2 = 0;
            while (pos2 < m) { unsigned r = a_utf_decode((unsigned char const *)p + pos2, m - pos2, nullptr); if (!r) break; pos2 += r; ++k2; }
            c.site("a_utf_length");
            a_size const cnt3 = a_utf_length(cell, m, &cell[0]);
            if (cnt3 != k2 || cell[0] != pos2) return c.fail("length-counter-wrong", "a_utf_length", "with the stop cell overlapping the text: counted %zu / stopped at %zu, stepping the decoder gives %zu / %zu", (size_t)cnt3, (size_t)cell[0], k2, pos2);
            c.st.add("probe.length_counter_stop_cell_overlaps_text");
        }
        return true;
    }
    bool single(uint32_t cp)
    { // one code point in isolation: table length, round trip, every proper prefix fails
        unsigned char ref[8], *enc = (unsigned char *)SA.halloc(6);
        memset(enc, 0xEE, 6);
        c.site("a_utf_encode");
        unsigned const n = a_utf_encode(cp, enc), n0 = a_utf_encode(cp, nullptr);
        unsigned const want = ref_encode(cp, ref);
        bool okk = true;
        if (n != want || n0 != want) okk = c.fail("encoded-length-wrong", "a_utf_encode", "U+%X encoded to %u bytes (%u without a buffer), the UTF-8 table prescribes %u", cp, n, n0, want);
        else if (memcmp(enc, ref, want) != 0) okk = c.fail("encoded-bytes-wrong", "a_utf_encode", "U+%X: encoded bytes differ from the UTF-8 table", cp);
        else for (unsigned i = want; i < 6; ++i) if (enc[i] != 0xEE) okk = c.fail("encoder-wrote-too-much", "a_utf_encode", "U+%X: byte %u beyond the %u-byte encoding was written", cp, i, want);
        if (okk)
        {
            uint32_t back = 0; bool ok;
            unsigned const r = guarded_decode(enc, want, &back, ok);
            if (!ok) okk = false;
            else if (r != want || back != cp) okk = c.fail("round-trip-failed", "a_utf_decode", "U+%X encoded to %u bytes decodes as length %u value U+%X", cp, want, r, back);
            for (unsigned k = 1; okk && k < want; ++k)
            {
                uint32_t junk; unsigned const rp = guarded_decode(enc, k, &junk, ok);
                if (!ok) okk = false;
                else if (rp != 0) okk = c.fail("proper-prefix-accepted", "a_utf_decode", "the first %u of the %u bytes of U+%X decode with length %u", k, want, cp, rp);
            }
            if (okk)
            { // a stated length far larger than the sequence (the bytes behind it are never needed): same answer
                static const size_t BIG[] = {7, 4096, (size_t)1 << 32, ((size_t)1 << 32) + 1, ((size_t)1 << 32) + 5, (size_t)1 << 33, (size_t)1 << 40, SIZE_MAX >> 1, SIZE_MAX - 1, SIZE_MAX};
                unsigned char *g = gb.place(enc, want);
                for (size_t big : BIG)
                {
                    if (big < want) continue;
                    uint32_t v2 = 0; c.site("a_utf_decode");
                    unsigned const r2 = a_utf_decode(g, big, &v2), r3 = a_utf_decode(g, big, nullptr);
                    if (r2 != want || r3 != want || v2 != cp) { okk = c.fail("round-trip-failed", "a_utf_decode", "U+%X (%u bytes) with a stated length of %zu decodes as length %u / %u value U+%X", cp, want, big, r2, r3, v2); break; }
                }
                c.st.add("probe.stated_length_beyond_4GiB");
            }
            if (okk)
            { // the result variable may overlap the bytes being decoded: nothing in the interface (no restrict) forbids it
                a_u32 w[2] = {0, 0}; memcpy(w, enc, want);
                c.site("a_utf_decode");
                unsigned const ra = a_utf_decode(w, want, &w[0]);
                if (ra != want || w[0] != cp) okk = c.fail("round-trip-failed", "a_utf_decode", "U+%X (%u bytes) decoded in place, the result variable overlapping the bytes, gives length %u value U+%X", cp, want, ra, w[0]);
                c.st.add("probe.decode_in_place");
            }
            bool ok2; if (okk) { uint32_t j; unsigned const rz = guarded_decode(enc, 0, &j, ok2); if (ok2 && rz != 0) okk = c.fail("proper-prefix-accepted", "a_utf_decode", "zero available bytes decode with length %u", rz); }
        }
        SA.hfree(enc);
        ++c.steps;
        c.st.add(std::string("probe.encoded_length_") + std::to_string(want));
        c.st.state(fnv_mix(FNV0, cp));
        return okk;
    }
    // an arbitrary lead byte followed by k continuation bytes (and optionally one non-continuation byte), offered with
    // every available length 0..len: the decoder may report at most six bytes, never more than available, and only
    // sequences whose trailing bytes are continuation bytes (the oracle for arbitrary bytes, nothing more)
    bool malformed(uint64_t v0, uint64_t v1)
    {
        static const unsigned char LEADS[] = {0xFE, 0xFF, 0xFC, 0xF8, 0xF0, 0xE0, 0xC0, 0x80, 0xBF, 0xC1, 0xFD, 0xF7};
        unsigned char buf[12]; size_t len = 0;
        buf[len++] = (v0 & 1) ? LEADS[(v0 >> 1) % sizeof LEADS] : (unsigned char)(0x80 | (v0 >> 1));
        size_t const k = (size_t)((v0 >> 8) % 9);
        for (size_t i = 0; i < k; ++i) buf[len++] = (unsigned char)(0x80 | ((v1 >> (i * 3)) & 0x3F));
        if ((v0 >> 12) & 1) buf[len++] = (unsigned char)(v1 >> 24);
        for (size_t n = 0; n <= len; ++n)
        {
            uint32_t cp; bool ok;
            unsigned const r = guarded_decode(buf, n, &cp, ok);
            if (!ok) return false;
            if (!check_length_counter(buf, n)) return false;
        }
        ++c.steps;
        c.st.add("fault.malformed_sequence");
        return true;
    }
    // the string object's counter a_utf_len (src/str.c): content appended without a terminator, possibly shrunk again,
    // so that stale bytes follow the content; it must count exactly the content
    bool strobj(uint64_t v0, uint64_t v1)
    {
        a_str sobj; a_str_ctor(&sobj);
        bool okk = true;
        { a_size st0 = 777; c.site("a_utf_len"); a_size n0 = a_utf_len(&sobj, &st0); if (n0 != 0 || st0 != 0) okk = c.fail("length-counter-wrong", "a_utf_len", "a string without a buffer counts %zu code points and stops at %zu", (size_t)n0, (size_t)st0); }
        { a_size st1 = 555; c.site("a_utf_length"); a_size n1 = a_utf_length(nullptr, 0, &st1); if (okk && (n1 != 0 || st1 != 0)) okk = c.fail("length-counter-wrong", "a_utf_length", "a null buffer of length 0 counts %zu code points and stops at %zu", (size_t)n1, (size_t)st1); }
        size_t const take = wire.empty() ? 0 : (size_t)(v0 % (wire.size() + 1));
        if (okk && take) a_str_catn_(&sobj, wire.data(), take);
        size_t keep = take ? (size_t)(v1 % (take + 1)) : 0;
        if (okk && take) { if (v0 & 1) a_str_getn_(&sobj, nullptr, take - keep); else a_str_setn_(&sobj, keep); }
        if (okk)
        {
            a_size stop = 999;
            c.site("a_utf_len");
            a_size const cnt = a_utf_len(&sobj, &stop);
            size_t pos = 0, k = 0;
            unsigned char *g = gb.place(wire.data(), keep);
            while (pos < keep) { unsigned r = a_utf_decode(g + pos, keep - pos, nullptr); if (!r) break; pos += r; ++k; }
            if (cnt != k || stop != pos) okk = c.fail("length-counter-wrong", "a_utf_len", "string of %zu bytes (buffer holds %zu stale bytes more): counted %zu / stopped at %zu, stepping the decoder over the content gives %zu / %zu", keep, take - keep, (size_t)cnt, (size_t)stop, k, pos);
        }
        a_str_dtor(&sobj);
        if (okk)
        { // the string object's encoder front end: appending the code points one by one reproduces the wire bytes, terminated
            a_str enc; a_str_ctor(&enc);
            size_t upto = cps.empty() ? 0 : (size_t)(v1 % (cps.size() + 1)), bytes = 0;
            for (size_t i = 0; i < upto && okk; ++i) { c.site("a_utf_catc"); if (a_utf_catc(&enc, cps[i]) != 0) okk = c.fail("unexpected-failure", "a_utf_catc", "append of U+%X failed", cps[i]); bytes += ref_len(cps[i]); }
            if (okk && (a_str_len(&enc) != bytes || (bytes && memcmp(a_str_ptr(&enc), wire.data(), bytes) != 0) || (upto && a_str_ptr(&enc)[bytes] != 0)))
                okk = c.fail("encoded-bytes-wrong", "a_utf_catc", "appending %zu code points to a string gives %zu bytes, the encoder stream has %zu (or the bytes / terminator differ)", upto, a_str_len(&enc), bytes);
            if (okk && upto) { a_size st = 0; a_size n = a_utf_len(&enc, &st); if (n != upto || st != bytes) okk = c.fail("length-counter-wrong", "a_utf_len", "%zu code points appended, counter says %zu / %zu bytes of %zu", upto, (size_t)n, (size_t)st, bytes); }
            a_str_dtor(&enc);
        }
        ++c.steps;
        c.st.add("probe.string_object_counter");
        return okk;
    }
    // thorough tier only: 2^32 + 5 one-byte characters.  The bytes must be non-zero (a NUL ends the count), so zero pages will
    // not do; one 2 MiB block of 'a' in a memory file is mapped 2049 times back to back - 4 GiB of address space, 2 MiB resident
    void count_4g()
    {
        size_t const CH = (size_t)2 << 20, NCH = 2049, N = ((size_t)1 << 32) + 5;
        int fd = memfd_create("liba-verif-utf", 0);
        if (fd < 0) { c.st.add("probe.utf_4GiB_text_not_mappable"); return; }
        unsigned char *base = nullptr; bool okm = ftruncate(fd, (off_t)CH) == 0;
        if (okm) { void *w = mmap(nullptr, CH, PROT_READ | PROT_WRITE, MAP_SHARED, fd, 0); if (w == MAP_FAILED) okm = false; else { memset(w, 'a', CH); munmap(w, CH); } }
        if (okm) { void *rsv = mmap(nullptr, CH * NCH, PROT_NONE, MAP_PRIVATE | MAP_ANONYMOUS | MAP_NORESERVE, -1, 0); if (rsv == MAP_FAILED) okm = false; else base = (unsigned char *)rsv; }
        for (size_t i = 0; okm && i < NCH; ++i) if (mmap(base + i * CH, CH, PROT_READ, MAP_SHARED | MAP_FIXED, fd, 0) == MAP_FAILED) okm = false;
        close(fd);
        if (!okm) { if (base) munmap(base, CH * NCH); c.st.add("probe.utf_4GiB_text_not_mappable"); return; }
        a_size stop = 0;
        c.site("a_utf_length");
        a_size const n = a_utf_length(base, N, &stop);
        munmap(base, CH * NCH);
        c.steps += 1; c.st.add("probe.utf_text_longer_than_4GiB");
        if (n != N || stop != N) c.fail("length-counter-wrong", "a_utf_length", "a text of %zu one-byte characters counts as %zu characters, stopping at byte %zu", N, (size_t)n, (size_t)stop);
        c.obs((uint64_t)n);
    }
    void exec(Plan const &p)
    {
        SA.reset();
        if (p.knob("huge4g", 0)) { count_4g(); return; }
        corrupt_cfg = p.knob("corrupt", 0) != 0;
        size_t const ncp = (size_t)(mag64(p.knob("ncp", 8)) % (p.knob("ascii", 0) ? 200 : 41));
        uint64_t const cs = (uint64_t)p.knob("cpseed", 1);
        bool const ascii = p.knob("ascii", 0) != 0;
        for (size_t i = 0; i < ncp; ++i)
        {
            uint32_t cp = pick_cp(splitmix64(cs + i));
            if (ascii) cp = 0x20 + (uint32_t)(splitmix64(cs + i) % 0x5F);
            cps.push_back(cp);
            unsigned char *enc = (unsigned char *)SA.halloc(6);
            c.site("a_utf_encode");
            unsigned n = a_utf_encode(cp, enc);
            if (n > 6 || n == 0) { c.fail("encoded-length-wrong", "a_utf_encode", "U+%X encoded to %u bytes", cp, n); SA.hfree(enc); return; }
            wire.insert(wire.end(), enc, enc + n);
            SA.hfree(enc);
        }
        for (size_t i = 0; i < p.ops.size() && c.ok(); ++i)
        {
            Op const &o = p.ops[i];
            c.opi = (int)i;
            c.st.add(std::string("op.utf.") + STREAM_OP_NAMES[o.kind]);
            c.logf("op %zu %s a=%lld,%lld [sent=%zu/%zu rx=%zu decoded=%zu]\n", i, STREAM_OP_NAMES[o.kind], (long long)o.a[0], (long long)o.a[1], sent, wire.size(), rx.size(), decoded.size());
            switch (o.kind)
            {
            case U_DELIVER:
            {
                if (truncated) break;
                uint64_t v = mag64(o.a[0]); size_t left = wire.size() - sent;
                size_t k = (v & 3) == 0 ? 1 : (v & 3) == 1 ? 0 : (v & 3) == 2 ? (size_t)(v >> 2) % 5 : (size_t)(v >> 2) % (left + 1);
                if (k > left) k = left;
                rx.insert(rx.end(), wire.begin() + (long)sent, wire.begin() + (long)(sent + k)); sent += k;
                c.st.add(k == 0 ? "fault.empty_delivery" : "fault.fragment");
                reader_poll();
                break;
            }
            case U_READ: reader_poll(); if (c.ok()) check_length_counter(rx.data(), rx.size()); break;
            case U_TRUNCATE:
                if (!truncated) { truncated = true; c.st.add("fault.stream_truncated"); }
                break;
            case U_CORRUPT:
            {
                if (!corrupt_cfg) break;
                uint64_t v = mag64(o.a[0]);
                unsigned char b;
                switch (v % 5) { case 0: b = 0xFE; break; case 1: b = 0xFF; break; case 2: b = (unsigned char)(0x80 | (mag64(o.a[1]) & 0x3F)); break; case 3: b = (unsigned char)mag64(o.a[1]); break; default: b = 0; break; }
                if (((v >> 3) & 3) == 1 && !rx.empty() && rpos < rx.size()) { size_t at = rpos + (size_t)(mag64(o.a[2]) % (rx.size() - rpos)); rx[at] ^= (unsigned char)(1u << (mag64(o.a[3]) % 8)); c.st.add("fault.bit_flip"); }
                else if (((v >> 3) & 3) == 2 && !rx.empty()) { size_t at = (size_t)(mag64(o.a[2]) % rx.size()); if (at < rpos) at = rpos; if (at < rx.size()) { rx[at] = 0; c.st.add("fault.byte_zeroed"); } }
                else { rx.push_back(b); c.st.add(b == 0xFE || b == 0xFF ? "fault.stray_FE_FF" : (b & 0xC0) == 0x80 ? "fault.stray_continuation_byte" : "fault.inserted_byte"); }
                corrupted = true;
                reader_poll();
                if (c.ok()) check_length_counter(rx.data(), rx.size());
                break;
            }
            case U_SINGLE: single(pick_cp(mag64(o.a[0]) * 2654435761ull + mag64(o.a[1]))); break;
            case U_MALFORMED: malformed(mag64(o.a[0]), mag64(o.a[1])); break;
            case U_STROBJ: strobj(mag64(o.a[0]), mag64(o.a[1])); break;
            default: break;
            }
            c.obs((uint64_t)o.kind); c.obs(decoded.size()); c.obs(rpos);
            c.st.state(fnv_mix(fnv_mix(fnv_mix(FNV0, rx.size() - rpos), decoded.size()), (uint64_t)corrupted * 2 + truncated));
        }
        if (!c.ok()) return;
        c.opi = (int)p.ops.size();
        // end of stream
        if (!truncated) { rx.insert(rx.end(), wire.begin() + (long)sent, wire.end()); sent = wire.size(); }
        if (!reader_poll()) return;
        if (!check_length_counter(rx.data(), rx.size())) return;
        if (!corrupted)
        { // fragmentation and truncation only: the reader reconstructs exactly the code points whose bytes fully arrived
            size_t full = 0, bytes = 0;
            for (size_t i = 0; i < cps.size(); ++i) { unsigned n = ref_len(cps[i]); if (bytes + n <= sent) { bytes += n; ++full; } else break; }
            if (decoded.size() != full) { c.fail("stream-reassembly-wrong", "a_utf_decode", "%zu code points decoded, %zu were completely delivered (%zu of %zu bytes)", decoded.size(), full, sent, wire.size()); return; }
            for (size_t i = 0; i < full; ++i) if (decoded[i] != cps[i]) { c.fail("stream-reassembly-wrong", "a_utf_decode", "code point %zu decoded as U+%X, sent U+%X", i, decoded[i], cps[i]); return; }
            if (rpos != bytes) { c.fail("stream-reassembly-wrong", "a_utf_decode", "reader consumed %zu bytes, complete code points occupy %zu", rpos, bytes); return; }
            if (sent > bytes) c.st.add("probe.truncated_inside_a_sequence");
        }
    }
};

struct StreamEngine : Engine
{
    char const *name() const override { return "stream"; }
    std::vector<std::string> properties() const override { return {"C17", "C18"}; }
    char const *op_name(int kind) const override { return kind >= 0 && kind < X__COUNT ? STREAM_OP_NAMES[kind] : "?"; }
    int op_kind(std::string const &n) const override { for (int k = 0; k < X__COUNT; ++k) if (n == STREAM_OP_NAMES[k]) return k; return -1; }
    Plan generate(std::string const &prop, uint64_t seed, int tier) override
    {
        Rng r(seed);
        Plan p; p.engine = "stream"; p.prop = prop; p.seed = seed;
        if (prop == "C17")
        {
            p.set("sys", 0);
            p.set("wsel", (int64_t)r.below(4)); p.set("polyseed", (int64_t)r.below(1u << 30)); p.set("initsel", (int64_t)r.below(1u << 30));
            p.set("msglen", (int64_t)r.geolen(0, 300)); p.set("msgseed", (int64_t)r.below(1u << 30)); p.set("pattern", (int64_t)r.below(5));
            p.set("prefill", (int64_t)r.below(6)); p.set("polyedge", (int64_t)r.below(24)); p.set("longmsg", r.chance(1, 300));
            if (tier && r.chance(1, 400000)) { p.set("huge4g", r.chance(1, 4) ? 2 : 1); p.ops.clear(); return p; }
            int64_t const nops = r.geolen(0, 40);
            for (int64_t i = 0; i < nops; ++i) { Op o; uint64_t k = r.below(8); o.kind = k < 6 ? X_FRAG : k == 6 ? X_EMPTY : X_REST; o.a[0] = (int64_t)r.below(100000); p.ops.push_back(o); }
        }
        else
        {
            p.set("sys", 1);
            p.set("corrupt", r.chance(1, 3)); p.set("ascii", r.chance(1, 5)); p.set("ncp", (int64_t)r.geolen(0, p.knob("ascii") ? 199 : 40)); p.set("cpseed", (int64_t)r.below(1u << 30));
            bool const corrupt = p.knob("corrupt") != 0;
            if (tier && r.chance(1, 4000000)) { p.set("huge4g", 1); p.ops.clear(); return p; }
            int64_t const nops = r.geolen(1, 80);
            bool const with_trunc = r.chance(1, 3);
            for (int64_t i = 0; i < nops; ++i)
            {
                Op o; uint64_t k = r.below(14);
                o.kind = k < 5 ? U_DELIVER : k < 7 ? U_READ : k < 10 ? U_SINGLE : k == 12 ? U_MALFORMED : k == 13 ? U_STROBJ : (corrupt ? U_CORRUPT : U_DELIVER);
                if (k == 11 && with_trunc && i > nops / 2) o.kind = U_TRUNCATE;
                for (int j = 0; j < 4; ++j) o.a[j] = (int64_t)r.below(1u << 30);
                p.ops.push_back(o);
            }
        }
        return p;
    }
    Result execute(Plan const &p, Stats &st, FILE *log) override
    {
        Ctx c(st, log);
        if (p.knob("sys", 0) == 0) { CrcSim s(c); s.exec(p); }
        else { UtfSim s(c); s.exec(p); }
        SA.reset();
        return c.result();
    }
    std::vector<KnobShrink> shrinkable_knobs() const override { return {{"msglen", 0}, {"ncp", 0}, {"corrupt", 0}, {"pattern", 0}}; }
    std::vector<std::string> components(std::string const &prop) const override
    {
        if (prop == "C17") return {"REAL: src/crc.c (all init and update routines), src/hash.c, a_u8/16/32/64_rev from include/a/a.h", "STUB: sender and transport (fragmentation, empty deliveries); tables and fragments live in exact-size guarded blocks; bitwise CRC and hash definitions are the reference"};
        return {"REAL: a_utf_encode, a_utf_decode, a_utf_length from src/utf.c; a_utf_len, a_utf_catc and the string object from src/str.c", "STUB: writer, transport (fragmentation, truncation, and in a separate configuration bit flips, stray continuation bytes, 0xFE/0xFF), reader loop; decoder input ends at an inaccessible page"};
    }
    std::string rule(std::string const &prop) const override
    {
        if (prop == "C17") return "items are messages (0-300 bytes, 5 patterns) delivered in seeded fragments (0, 1, small, large) to MSB-first, LSB-first and reflected receivers of a seeded width/polynomial/initial value plus both string hashes (string form fed NUL-terminated or, for empty pieces, null pointers); table memory is pre-filled with one of six patterns before initialisation; after every fragment the running value is compared with bit-by-bit division over the delivered prefix; distinct_nontrivial = HyperLogLog estimate of distinct (width, polynomial, message length, split position) states";
        return "items are seeded code-point streams (dense at the encoding-length boundaries; in the thorough tier also rare texts of 2^32+5 one-byte characters for the length counter) encoded by the real encoder and delivered in fragments with optional truncation, or (one third of the items) with corruption; single code points are additionally round-tripped with every proper prefix, explicit malformed sequences (any lead byte, up to 8 continuation bytes) are offered with every available length, and a real string object (a_utf_len, a_utf_catc) is driven with stale bytes behind its content; distinct_nontrivial = HyperLogLog estimate of distinct code points round-tripped and (pending bytes, decoded count, fault flags) reader states";
    }
    std::vector<std::string> assumptions(std::string const &prop) const override
    {
        std::vector<std::string> v = {"sampling, not proof: the polynomial / message / code-point spaces are sampled with boundary values dense, not enumerated"};
        if (prop == "C18") v.push_back("in the corruption configuration equality with the sent sequence is not demanded: only no access beyond the stated length, result <= available and <= 6, and continuation bytes in accepted sequences");
        return v;
    }
    uint64_t default_runs(std::string const &prop, int tier) const override { return prop == "C17" ? (tier ? 30000000 : 400000) : (tier ? 40000000 : 500000); }
};

Engine *make_engine() { return new StreamEngine(); }

} // namespace sim

int main(int argc, char **argv) { return sim::driver_main(argc, argv); }
