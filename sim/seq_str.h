// seq engine, target `str` (C06, and C07 with faults).  Oracle: DESIGN.md Appendix A.
#pragma once
#include "seq_common.h"
#include <ctype.h>
#include <wchar.h>
extern "C" {
#include "a/str.h"
#include "a/utf.h"
}

namespace sim {

enum StrOp
{
    S_CATC, S_CATN, S_CATS, S_CAT, S_CATF, S_UTF_CATC, S_GETC, S_GETN, S_TRIM, S_SETN, S_SETM, S_SWAP, S_EXIT, S_CMP,
    S_RECREATE, S_ACCESS, S_UTF_LEN, S__COUNT
};
static char const *const STR_OP_NAMES[] = {"s_catc", "s_catn", "s_cats", "s_cat", "s_catf", "s_utf_catc", "s_getc", "s_getn", "s_trim", "s_setn", "s_setm",
                                           "s_swap", "s_exit", "s_cmp", "s_recreate", "s_access", "s_utf_len"};

static unsigned char const STR_ALPHA[] = {' ', '\t', '\n', 'a', 'b', 'c', 'x', 0, 0x80, 0xff, '%', 'z', '\r', 0xc3};

static inline unsigned ref_utf8_encode(uint32_t cp, unsigned char *out)
{
    cp &= 0x7FFFFFFFu;
    if (cp == 0) return 0;
    if (cp < 0x80) { out[0] = (unsigned char)cp; return 1; }
    unsigned n = cp < 0x800 ? 2 : cp < 0x10000 ? 3 : cp < 0x200000 ? 4 : cp < 0x4000000 ? 5 : 6;
    static const unsigned char lead[] = {0, 0, 0xC0, 0xE0, 0xF0, 0xF8, 0xFC};
    for (unsigned i = n - 1; i >= 1; --i) { out[i] = (unsigned char)(0x80 | (cp & 0x3F)); cp >>= 6; }
    out[0] = (unsigned char)(lead[n] | cp);
    return n;
}
static inline uint32_t pick_codepoint(int64_t sel, int64_t val)
{
    static const uint32_t B[] = {0x7F, 0x80, 0x7FF, 0x800, 0xFFFF, 0x10000, 0x1FFFFF, 0x200000, 0x3FFFFFF, 0x4000000, 0x7FFFFFFF, 1, 0, 0x80000041u, 0xFFFFFFFFu, 0x20AC};
    uint64_t v = (uint64_t)(val < 0 ? -val : val);
    switch (((sel % 4) + 4) % 4)
    {
    case 0: return B[v % 16];
    case 1: return (uint32_t)(B[v % 11] + (v / 16) % 3) - 1;
    case 2: return (uint32_t)(v * 2654435761u) & 0x7FFFFFFFu;
    default: return (uint32_t)(v % 0x250);
    }
}

static int str_catv_wrap(a_str *s, char const *fmt, ...) __attribute__((format(printf, 2, 3)));
static int str_catv_wrap(a_str *s, char const *fmt, ...)
{
    va_list va; va_start(va, fmt);
    int r = a_str_catv(s, fmt, va);
    va_end(va);
    return r;
}

struct StrBox
{
    a_str *s = nullptr;
    bool heap = false;
    std::string M;
    bool t = false; // terminated: byte at index len is inside the capacity and is NUL
};

struct StrTarget
{
    Ctx &c;
    SeqRun run;
    StrBox box[2];
    int64_t bern_permille = 0; uint64_t bern_seed = 0;
    size_t maxlen = 200;
    explicit StrTarget(Ctx &c_) : c(c_), run(c_) {}

    bool check(StrBox &x, char const *site)
    {
        if (!x.s) return true;
        if (!SA.err_cls.empty()) return c.fail(SA.err_cls.c_str(), site, "%s", SA.err_detail.c_str());
        if (uint64_t bad = SA.check_guards()) return c.fail("guard-damaged", site, "bytes next to block #%llu were overwritten", (unsigned long long)bad);
        size_t const n = a_str_len(x.s), m = a_str_mem(x.s);
        char const *p = a_str_ptr(x.s);
        if (n > m) return c.fail("length-exceeds-capacity", site, "length %zu > capacity %zu", n, m);
        if (m)
        {
            SimAlloc::Block const *blk = SA.block_at(p);
            if (!blk) return c.fail("storage-not-owned", site, "string storage is not a live block (capacity %zu)", m);
            if (m > blk->size) return c.fail("capacity-exceeds-storage", site, "capacity %zu > %zu-byte block", m, blk->size);
        }
        if (n != x.M.size()) return c.fail("length-mismatch", site, "length %zu, model %zu", n, x.M.size());
        if (n && memcmp(p, x.M.data(), n) != 0)
        {
            size_t i = 0; while (i < n && p[i] == x.M[i]) ++i;
            return c.fail("content-mismatch", site, "byte %zu of %zu differs from the model", i, n);
        }
        if (x.t)
        {
            if (n >= m) return c.fail("terminator-outside-capacity", site, "terminated string has length %zu = capacity %zu: no room for the NUL", n, m);
            if (p[n] != 0) return c.fail("terminator-missing", site, "byte after the content (index %zu) is 0x%02x, not NUL", n, (unsigned char)p[n]);
        }
        return true;
    }
    bool check_all(char const *site) { return check(box[0], site) && check(box[1], site); }
    void observe(StrBox &x)
    {
        c.obs(x.M.size()); c.obs(x.t); c.obs_bytes(x.M.data(), x.M.size());
        size_t spare = x.s ? a_str_mem(x.s) - a_str_len(x.s) : 0;
        c.st.state(fnv_mix(fnv_mix(fnv_mix(FNV0, 77), x.M.size()), (spare > 3 ? 3 : spare) * 2 + x.t));
    }

    bool create(StrBox &x, bool heap)
    {
        x.M.clear(); x.t = false; x.heap = heap;
        if (heap)
        {
            a_str *ns = nullptr;
            int rc = run.api("a_str_new", [&] { ns = a_str_new(); return ns != nullptr; }, [&] { return true; });
            if (rc == SeqRun::API_VIOLATION) return false;
            if (rc == SeqRun::API_OK) { x.s = ns; return true; }
            c.st.add("probe.header_alloc_failed");
            x.heap = false;
        }
        x.s = (a_str *)SA.halloc(sizeof(a_str));
        c.site("a_str_ctor");
        a_str_ctor(x.s);
        return true;
    }
    bool destroy(StrBox &x)
    {
        if (!x.s) return true;
        if (x.heap) { c.site("a_str_die"); a_str_die(x.s); }
        else { c.site("a_str_dtor"); a_str_dtor(x.s); SA.hfree(x.s); }
        x.s = nullptr; x.M.clear(); x.t = false;
        if (!SA.err_cls.empty()) return c.fail(SA.err_cls.c_str(), "a_str_die", "%s", SA.err_detail.c_str());
        return true;
    }

    // payload length chosen relative to the current capacity so that boundaries are hit
    size_t pick_len(StrBox &x, int64_t mode, int64_t val, size_t extra_reserve)
    {
        size_t const len = x.M.size(), cap = a_str_mem(x.s);
        uint64_t v = (uint64_t)(val < 0 ? -val : val);
        switch (((mode % 5) + 5) % 5)
        {
        case 0: return (size_t)(v % 9);
        case 1:
        { // land the new length (+ reserve) at cap-2 .. cap+1
            int64_t target = (int64_t)cap + (int64_t)(v % 4) - 2 - (int64_t)extra_reserve * (int64_t)((v / 4) % 2);
            int64_t n = target - (int64_t)len;
            if (n < 0) n = 0;
            // normally a short block; in the long-string configurations every other targeted block may be as long as it takes
            // (an emptied string that kept a large buffer is grown past that buffer in one step)
            if (n > 64) { if (maxlen >= 6000 && ((v >> 3) & 1) && n <= 400000) c.st.add("probe.str_long_targeted_block"); else n = 64; }
            c.st.add("probe.str_targeted_length");
            return (size_t)n;
        }
        case 2: return (size_t)(v % (3 * cap + 2)) % 80;
        case 3: return 0;
        default:
            if (maxlen >= 100000 && (v & 1)) { c.st.add("probe.str_huge_block"); return 20000 + (size_t)(v % 50000); } // blocks larger than half the capacity of a large string
            return (size_t)(v % 33);
        }
    }
    std::string payload(size_t n, int64_t seedv, bool nul_free)
    {
        std::string s(n, '\0');
        uint64_t v = (uint64_t)(seedv < 0 ? -seedv : seedv);
        for (size_t i = 0; i < n; ++i)
        {
            unsigned char ch = STR_ALPHA[(v + i * 7 + (i >> 2)) % sizeof STR_ALPHA];
            if (nul_free && ch == 0) ch = 'q';
            s[i] = (char)ch;
        }
        return s;
    }

    void exec(Plan const &p)
    {
        SA.reset();
        SA.stats = &c.st;
        SA.always_move = p.knob("alloc_move", 0) != 0;
        SA.junk_fill = p.knob("alloc_junk", 1) != 0;
        SA.reuse_lifo = p.knob("alloc_reuse", 0) != 0;
        SA.junk_seed = (unsigned char)p.knob("junk_seed", 0x5b);
        SA.passthrough = p.knob("alloc_default", 0) != 0;
        if (SA.passthrough) c.st.add("probe.default_allocator_a_alloc_");
        SA.classify = [](void *addr, size_t) -> char const * {
            char const *s = g_shared->site;
            if (strstr(s, "_new")) return "str_header";
            if (strstr(s, "catv") || strstr(s, "catf")) return "str_formatted_growth";
            if (strstr(s, "utf_catc")) return "str_growth_utf_catc";
            if (strstr(s, "exit")) return "str_growth_exit";
            return addr ? "str_growth" : "str_first_allocation";
        };
        install_simalloc();
        run.setup_bernoulli(bern_permille, bern_seed);
        maxlen = (size_t)std::max<int64_t>(8, p.knob("maxlen", 200));
        if (!create(box[0], p.knob("heap", 1) != 0) || !create(box[1], p.knob("heap", 1) == 0)) return;
        for (size_t i = 0; i < p.ops.size() && c.ok(); ++i)
        {
            Op const &o = p.ops[i];
            run.op_begin(o, (int)i);
            c.st.add(std::string("op.str.") + STR_OP_NAMES[o.kind - 100]);
            c.logf("op %zu %s c=%d a=%lld,%lld,%lld,%lld f=%d:%lld  [len0=%zu t0=%d len1=%zu t1=%d]\n", i, STR_OP_NAMES[o.kind - 100], o.client, (long long)o.a[0], (long long)o.a[1], (long long)o.a[2], (long long)o.a[3], o.fk, (long long)o.fa, box[0].M.size(), box[0].t, box[1].M.size(), box[1].t);
            step(o);
            run.op_end();
            ++c.steps;
            c.obs((uint64_t)o.kind);
            observe(box[0]); observe(box[1]);
        }
        SA.clear_fault(); run.persistent_active = false;
        if (c.ok())
        {
            c.opi = (int)p.ops.size();
            if (destroy(box[0]) && destroy(box[1]))
            {
                uint64_t lid; size_t bytes; size_t n = SA.leaks(lid, bytes);
                if (n) c.fail("leak", "a_str_die", "%zu block(s), %zu bytes still allocated after the strings were destroyed (first: block #%llu)", n, bytes, (unsigned long long)lid);
            }
        }
        SA.stats = nullptr;
    }

    // append `data` through one of the byte-block style APIs
    bool do_append(StrBox &x, char const *name, std::string const &data, bool term, std::function<int()> const &call)
    {
        int ret = 0;
        int rc = run.api(name, [&] { ret = call(); return ret == 0; }, [&] { return check(x, name); });
        if (rc == SeqRun::API_VIOLATION) return false;
        if (rc == SeqRun::API_FAULTED) return true;
        if (rc != SeqRun::API_OK) return c.fail("unexpected-failure", name, "returned %d with memory available", ret);
        x.M += data;
        if (term) x.t = true; else if (!data.empty()) x.t = false;
        return check(x, name);
    }

    // 4 GiB + one page of anonymous zero pages, mapped once per process and never resident beyond the few pages written
    static unsigned char *giant_map()
    {
        static unsigned char *giant = nullptr; static bool tried = false; static size_t const GIANT = ((size_t)1 << 32) + 4096;
        if (!tried) { tried = true; void *m = mmap(nullptr, GIANT, PROT_READ | PROT_WRITE, MAP_PRIVATE | MAP_ANONYMOUS | MAP_NORESERVE, -1, 0); giant = m == MAP_FAILED ? nullptr : (unsigned char *)m; }
        return giant;
    }
    void step(Op const &o)
    {
        StrBox &x = box[o.client & 1];
        StrBox &y = box[(o.client & 1) ^ 1];
        a_str *s = x.s;
        size_t const len = x.M.size();
        bool const roomy = len < maxlen;
        switch (o.kind - 100)
        {
        case S_CATC:
        {
            if (!roomy) break;
            int const ch = STR_ALPHA[(uint64_t)(o.a[0] < 0 ? -o.a[0] : o.a[0]) % sizeof STR_ALPHA];
            bool const term = (o.a[1] & 1) == 0;
            char const *name = term ? "a_str_catc" : "a_str_catc_";
            int ret = 0;
            int rc = run.api(name, [&] { ret = term ? a_str_catc(s, ch) : a_str_catc_(s, ch); return ret == ch; }, [&] { return check(x, name); });
            if (rc == SeqRun::API_VIOLATION || rc == SeqRun::API_FAULTED) break;
            if (rc != SeqRun::API_OK) { c.fail("unexpected-failure", name, "returned %d for character %d", ret, ch); break; }
            x.M.push_back((char)ch); x.t = term;
            check(x, name);
            break;
        }
        case S_CATN:
        {
            if (!roomy) break;
            bool const term = (o.a[2] & 1) == 0;
            size_t const n = pick_len(x, o.a[0], o.a[1], term ? 1 : 0);
            std::string data = payload(n, o.a[3], false);
            char *src = (char *)SA.halloc(n ? n : 1); memcpy(src, data.data(), n);
            do_append(x, term ? "a_str_catn" : "a_str_catn_", data, term, [&] { return term ? a_str_catn(s, src, n) : a_str_catn_(s, src, n); });
            SA.hfree(src);
            break;
        }
        case S_CATS:
        {
            if (!roomy) break;
            bool const term = (o.a[2] & 1) == 0;
            size_t const n = pick_len(x, o.a[0], o.a[1], term ? 1 : 0);
            std::string data = payload(n, o.a[3], true);
            char *src = (char *)SA.halloc(n + 1); memcpy(src, data.data(), n); src[n] = 0;
            do_append(x, term ? "a_str_cats" : "a_str_cats_", data, term, [&] { return term ? a_str_cats(s, src) : a_str_cats_(s, src); });
            SA.hfree(src);
            break;
        }
        case S_CAT:
        {
            if (!roomy || y.M.size() > maxlen) break;
            bool const term = (o.a[0] & 1) == 0;
            std::string data = y.M;
            do_append(x, term ? "a_str_cat" : "a_str_cat_", data, term, [&] { return term ? a_str_cat(s, y.s) : a_str_cat_(s, y.s); });
            if (c.ok()) check(y, term ? "a_str_cat" : "a_str_cat_");
            break;
        }
        case S_CATF:
        {
            if (!roomy) break;
            if ((((uint64_t)(o.a[3] < 0 ? -o.a[3] : o.a[3])) % 61) == 60 && giant_map())
            { // formatted append into a string whose spare capacity does not fit an int (2^31 + k bytes of a zero-page mapping that
              // stands for a string grown that far): the text must arrive complete and terminated, the result is its length
                unsigned char *g = giant_map();
                uint64_t const vv = (uint64_t)(o.a[1] < 0 ? -o.a[1] : o.a[1]);
                std::string const prefix = x.M.substr(0, std::min<size_t>(x.M.size(), 40));
                static size_t const SPARE[] = {((size_t)1 << 31) + 1, ((size_t)1 << 31) + 8, ((size_t)1 << 31) + 64, ((size_t)1 << 32) + 3};
                a_str gs; gs.ptr_ = (char *)g; gs.num_ = prefix.size(); gs.mem_ = prefix.size() + SPARE[vv % 4];
                memcpy(g, prefix.data(), prefix.size());
                char text[96]; int const tl = snprintf(text, sizeof text, "%s-%llu-%s", "deterministic", (unsigned long long)vv, vv & 1 ? "simulation with fault injection" : "x");
                c.site("a_str_catf");
                int const got = a_str_catf(&gs, "%s", text);
                bool const okc = got == tl && gs.num_ == prefix.size() + (size_t)tl && gs.ptr_ == (char *)g && memcmp(g + prefix.size(), text, (size_t)tl) == 0 && g[prefix.size() + (size_t)tl] == 0 && memcmp(g, prefix.data(), prefix.size()) == 0;
                size_t const dirty = prefix.size() + (size_t)(tl > 0 ? tl : 0) + 8;
                memset(g, 0, dirty < 4096 ? dirty : 4096);
                c.st.add("probe.formatted_append_with_spare_capacity_beyond_int");
                if (!okc) c.fail("formatted-append-wrong", "a_str_catf", "appending %d formatted bytes to a string with %zu bytes of spare capacity returned %d and left length %zu", tl, gs.mem_ - prefix.size(), got, gs.num_);
                break;
            }
            static char ref[8192];
            int reflen = -1;
            bool const use_v = (o.a[2] & 1) != 0;
            char const *name = use_v ? "a_str_catv" : "a_str_catf";
            uint64_t const v = (uint64_t)(o.a[1] < 0 ? -o.a[1] : o.a[1]);
            int const iv = (int)v - 500;
            size_t const cap = a_str_mem(s), spare = cap - a_str_len(s);
            static char const *const WORDS[] = {"", "a", "liba", "deterministic", "x y"};
            std::string longs;
            std::function<int()> call;
#define FMT_CASE(...)                                                                         \
    do {                                                                                      \
        reflen = snprintf(ref, sizeof ref, __VA_ARGS__);                                      \
        call = [&]() -> int { return use_v ? str_catv_wrap(s, __VA_ARGS__) : a_str_catf(s, __VA_ARGS__); }; \
    } while (0)
            unsigned const uv = (unsigned)v * 2654435761u;
            int const chv = 'A' + (int)(v % 26);
            double const dv = (double)iv / 8.0;
            char const *word = WORDS[v % 5];
            bool formatter_fails = false;
            wint_t const wc = (wint_t)(0x100 + v % 0x700); // lives as long as the deferred call
            switch ((int)(((o.a[0] % 15) + 15) % 15))
            {
            case 14:
            { // the C formatter itself fails (no multibyte form of this wide character in the "C" locale)
                FMT_CASE("x%lcy", wc);
                formatter_fails = reflen < 0;
                if (!formatter_fails) c.st.add("probe.wide_char_formatted"); else c.st.add("fault.formatter_refuses_conversion");
                break;
            }
            case 0: FMT_CASE("%d", iv); break;
            case 1: FMT_CASE("%5d", iv); break;
            case 2: FMT_CASE("%-8s|", word); break;
            case 3:
            { // formatted length spare-2 .. spare+1 : single-pass fit, exact fit, two-pass
                int64_t n = (int64_t)spare + (int64_t)(v % 4) - 2; if (n < 0) n = 0; if (n > 100) n = 100;
                longs.assign((size_t)n, 'k');
                c.st.add(n + 1 <= (int64_t)spare ? "probe.catf_fits_first_pass" : "probe.catf_two_pass");
                if (n + 1 == (int64_t)spare) c.st.add("probe.catf_exactly_fills_spare");
                FMT_CASE("%s", longs.c_str());
                break;
            }
            case 4: FMT_CASE("%x", uv); break;
            case 5: FMT_CASE("%c", chv); break;
            case 6: FMT_CASE("%u", uv); break;
            case 7: FMT_CASE("%.3f", dv); break;
            case 8: FMT_CASE("100%%"); break;
            case 9: FMT_CASE("lit-text"); break;
            case 10: FMT_CASE("%s=%d;", word, iv); break;
            case 11:
            { // the empty format, passed as a non-literal
                reflen = 0; ref[0] = 0;
                call = [&]() -> int {
                    char const *volatile ef = "";
#pragma clang diagnostic push
#pragma clang diagnostic ignored "-Wformat-security"
                    return use_v ? str_catv_wrap(s, ef) : a_str_catf(s, ef);
#pragma clang diagnostic pop
                };
                break;
            }
            case 12: FMT_CASE("%s", ""); break;
            default:
                if (v % 6 == 0 && maxlen >= 200)
                { // a long formatted text (up to 6 KiB, beyond any scratch buffer an implementation might format into first), every
                  // position with its own letter so that a truncated or repeated stretch shows
                    size_t const n = 200 + (size_t)((v / 6 * 37) % 6000);
                    longs.resize(n); for (size_t i = 0; i < n; ++i) longs[i] = (char)('a' + (i * 7 + i / 26 + v) % 26);
                    c.st.add(n >= 1024 ? "probe.catf_text_of_1024_bytes_or_more" : "probe.catf_long_text");
                }
                else longs.assign((size_t)(3 * cap + v % 5) % 90, 'L');
                FMT_CASE("[%s]", longs.c_str());
                break;
            }
#undef FMT_CASE
            if (formatter_fails)
            { // nothing is produced: the call must report the failure (a negative value) and leave the string as it is
                c.site(name);
                uint64_t const fz = SA.fired_total;
                int const r2 = call();
                if (SA.fired_total > fz) break; // an injected allocation failure on top: covered elsewhere
                if (r2 >= 0) { c.fail("formatter-failure-not-reported", name, "the C formatter refuses the conversion (returns %d) but the append returned %d", reflen, r2); break; }
                bool const keep_t = x.t; x.t = false; // the spare bytes may have been written by the refused attempt; content and length may not
                check(x, name);
                x.t = keep_t && a_str_len(s) < a_str_mem(s) && a_str_ptr(s)[a_str_len(s)] == 0;
                break;
            }
            int ret = 0;
            uint64_t f0 = 0;
            int rc = run.api(name, [&] {
                f0 = SA.fired_total; ret = call();
                if (reflen == 0) return ret == 0 && SA.fired_total == f0; // 0 is both "nothing appended" and "failure"
                return ret == reflen; }, [&] { return check(x, name); });
            if (rc == SeqRun::API_VIOLATION || rc == SeqRun::API_FAULTED) break;
            if (rc != SeqRun::API_OK) { c.fail("formatted-length-wrong", name, "returned %d, the C formatter produces %d bytes", ret, reflen); break; }
            x.M.append(ref, (size_t)reflen); x.t = true;
            check(x, name);
            break;
        }
        case S_UTF_CATC:
        {
            if (!roomy) break;
            uint32_t const cp = pick_codepoint(o.a[0], o.a[1]);
            unsigned char enc[8]; unsigned const n = ref_utf8_encode(cp, enc);
            std::string data((char const *)enc, n);
            do_append(x, "a_utf_catc", data, true, [&] { return a_utf_catc(s, cp); });
            break;
        }
        case S_GETC:
        {
            bool const term = (o.a[0] & 1) == 0;
            char const *name = term ? "a_str_getc" : "a_str_getc_";
            c.site(name);
            int const r = term ? a_str_getc(s) : a_str_getc_(s);
            if (x.M.empty())
            {
                if (r != ~0) { c.fail("pop-from-empty-returned-byte", name, "returned %d on an empty string", r); break; }
            }
            else
            {
                unsigned char const want = (unsigned char)x.M.back();
                if (r == ~0 && want != 0xff) { c.fail("unexpected-failure", name, "returned ~0 on a non-empty string"); break; }
                if ((unsigned char)(r & 0xff) != want) { c.fail("popped-wrong-byte", name, "returned 0x%02x, last byte was 0x%02x", (unsigned)(r & 0xff), want); break; }
                x.M.pop_back();
                x.t = term; // the non-terminating pop leaves the popped byte, not a NUL, after the content
            }
            check(x, name);
            break;
        }
        case S_GETN:
        {
            bool const term = (o.a[2] & 1) == 0;
            bool const withbuf = (o.a[3] & 1) == 0;
            uint64_t const v = (uint64_t)(o.a[1] < 0 ? -o.a[1] : o.a[1]);
            size_t n;
            switch (((o.a[0] % 4) + 4) % 4) { case 0: n = (size_t)(v % (len + 1)); break; case 1: n = len + 1 + (size_t)(v % 3); break; case 2: n = SIZE_MAX; break; default: n = (size_t)(v % 5); break; }
            size_t const k = n < len ? n : len;
            char *out = withbuf ? (char *)SA.halloc(k ? k : 1) : nullptr;
            char const *name = term ? "a_str_getn" : "a_str_getn_";
            c.site(name);
            size_t const r = term ? a_str_getn(s, out, n) : a_str_getn_(s, out, n);
            bool bad = false;
            if (r != k) { c.fail("popped-wrong-count", name, "returned %zu, expected %zu (asked %zu of %zu)", r, k, n, len); bad = true; }
            else if (withbuf && k && memcmp(out, x.M.data() + (len - k), k) != 0) { c.fail("popped-wrong-byte", name, "bytes copied out differ from the tail of the string"); bad = true; }
            if (out) SA.hfree(out);
            if (bad) break;
            x.M.resize(len - k);
            if (k) x.t = term;
            check(x, name);
            break;
        }
        case S_TRIM:
        {
            int const which = (int)(((o.a[0] % 3) + 3) % 3);
            bool const under = (o.a[2] & 1) != 0;
            static const struct { char const *s; size_t n; } SETS[] = {{" ", 1}, {" \t\n", 3}, {"abc", 3}, {"\0x", 2}, {" \t\n\rabcxz%\0\x80\xff\xc3", 14}, {"q", 0}, {"\xff\x80", 2}, {"z", 1}};
            auto const &set0 = SETS[(uint64_t)(o.a[1] < 0 ? -o.a[1] : o.a[1]) % 8];
            // one call in seven names the set by a view into the string's own buffer (its first byte): "strip whatever the
            // string starts with from both ends" - the set must be read before the content moves
            bool const own_set = len >= 1 && ((uint64_t)(o.a[3] < 0 ? -o.a[3] : o.a[3]) % 7) == 6;
            char const first = own_set ? x.M[0] : 0;
            struct { char const *s; size_t n; } const set = {own_set ? &first : set0.s, own_set ? (size_t)1 : set0.n};
            if (own_set) c.st.add("probe.trim_set_inside_own_buffer");
            auto in_set = [&](unsigned char ch) { if (set.n) return memchr(set.s, ch, set.n) != nullptr; return isspace(ch) != 0; };
            std::string M = x.M;
            size_t b = 0, e = M.size();
            if (which == 0 || which == 2) while (e > b && in_set((unsigned char)M[e - 1])) --e; // right first (matters only for the result, which is order independent)
            if (which == 1 || which == 2) while (b < e && in_set((unsigned char)M[b])) ++b;
            std::string want = M.substr(b, e - b);
            static char const *const NAMES[2][3] = {{"a_str_rtrim", "a_str_ltrim", "a_str_trim"}, {"a_str_rtrim_", "a_str_ltrim_", "a_str_trim_"}};
            char const *name = NAMES[under][which];
            // the set lives in an exact-size block so that reading past it is caught
            char *setmem = (char *)SA.halloc(set.n ? set.n : 1); memcpy(setmem, set.s, set.n ? set.n : 1);
            char const *const setarg = own_set ? a_str_ptr(s) : setmem;
            c.site(name);
            if (!under) { if (which == 0) a_str_rtrim(s, setarg, set.n); else if (which == 1) a_str_ltrim(s, setarg, set.n); else a_str_trim(s, setarg, set.n); }
            else { if (which == 0) a_str_rtrim_(s, setarg, set.n); else if (which == 1) a_str_ltrim_(s, setarg, set.n); else a_str_trim_(s, setarg, set.n); }
            SA.hfree(setmem);
            bool const stripped = want.size() < x.M.size();
            if (stripped) c.st.add(want.empty() ? "probe.trim_emptied_string" : "probe.trim_stripped");
            x.M = want;
            if (!under) { if (stripped) x.t = true; }
            else if (stripped) x.t = false; // not asserted for the underscore forms
            check(x, name);
            break;
        }
        case S_SETN:
        {
            uint64_t const v = (uint64_t)(o.a[1] < 0 ? -o.a[1] : o.a[1]);
            size_t const cap = a_str_mem(s);
            size_t n;
            switch (((o.a[0] % 5) + 5) % 5) { case 0: n = (size_t)(v % (len + 1)); break; case 1: n = cap; break; case 2: n = cap + 1 + (size_t)(v % 3); break; case 3: n = (size_t)(v % (cap + 1)); break; default: n = SIZE_MAX - (size_t)(v % 2); break; }
            bool const raw = (o.a[2] & 1) != 0 && n <= cap; // a_str_setn_ documents "length must [be] less than memory"
            char const *name = raw ? "a_str_setn_" : "a_str_setn";
            c.site(name);
            int r = 0;
            if (raw) a_str_setn_(s, n); else r = a_str_setn(s, n);
            if (n > cap)
            {
                c.st.add("probe.setn_beyond_capacity");
                if (r == 0)
                { // accepting is only sound if the call made room: then the new bytes are indeterminate and the caller writes them
                    if (a_str_len(s) != n || a_str_mem(s) < n) { c.fail("out-of-range-length-accepted", name, "setn(%zu) with capacity %zu reported success but length is %zu and capacity %zu", n, cap, a_str_len(s), a_str_mem(s)); break; }
                    for (size_t k = len; k < n && k < len + 4096; ++k) { char *q = a_str_at(s, k); if (!q) break; *q = 'w'; x.M.push_back('w'); }
                    if (x.M.size() != n) { c.fail("out-of-range-length-accepted", name, "setn(%zu) beyond capacity %zu accepted without usable storage", n, cap); break; }
                    x.t = false;
                }
                check(x, name);
                break;
            }
            if (r != 0) { c.fail("unexpected-failure", name, "setn(%zu) with capacity %zu returned %d", n, cap, r); break; }
            if (a_str_len(s) != n) { c.fail("length-mismatch", name, "length %zu after setn(%zu)", a_str_len(s), n); break; }
            if (n == cap && n) c.st.add("probe.length_equals_capacity");
            if (n < len) x.M.resize(n);
            else for (size_t k = len; k < n; ++k)
            { // newly exposed bytes are indeterminate: the caller writes them at once
                char *q = a_str_at(s, k);
                if (!q || !SA.owns(q, 1)) { c.fail("returned-pointer-outside-storage", "a_str_at", "index %zu < capacity %zu: pointer missing or outside owned storage", k, cap); return; }
                char ch = (char)STR_ALPHA[(v + k) % sizeof STR_ALPHA];
                *q = ch; x.M.push_back(ch);
            }
            if (n != len) x.t = false;
            check(x, name);
            break;
        }
        case S_SETM:
        {
            if (SA.passthrough && (o.a[2] % 5) == 0 && SA.fmode == SimAlloc::F_NONE)
            { // an absurd request that the REAL default allocator refuses
                uint64_t const rf0 = SA.real_failures;
                c.site("a_str_setm");
                int const ret = a_str_setm(s, (size_t)1 << 60);
                if (SA.real_failures == rf0) break;
                c.st.add("probe.real_allocator_refusal_str");
                if (ret == 0) { c.fail("allocation-failure-not-reported", "a_str_setm", "the default allocator refused 2^60 bytes but the call reported success"); break; }
                check(x, "a_str_setm");
                break;
            }
            uint64_t const v = (uint64_t)(o.a[0] < 0 ? -o.a[0] : o.a[0]);
            size_t const m = (size_t)(v % (maxlen + 40));
            bool const raw = (o.a[1] & 3) == 3 && m > len; // a_str_setm_ is the unconditional variant: only above the live content (DESIGN.md 7)
            char const *name = raw ? "a_str_setm_" : "a_str_setm";
            int ret = 0;
            int rc = run.api(name, [&] { ret = raw ? a_str_setm_(s, m) : a_str_setm(s, m); return ret == 0; }, [&] { return check(x, name); });
            if (rc == SeqRun::API_VIOLATION || rc == SeqRun::API_FAULTED) break;
            if (rc != SeqRun::API_OK) { c.fail("unexpected-failure", name, "setm(%zu) returned %d", m, ret); break; }
            if (a_str_mem(s) < m) { c.fail("capacity-not-reserved", name, "capacity %zu after setm(%zu)", a_str_mem(s), m); break; }
            if (raw && x.t && a_str_mem(s) <= len) x.t = false;
            check(x, name);
            break;
        }
        case S_SWAP:
        {
            c.site("a_str_swap");
            if (o.a[3] % 5 == 0)
            { // both arguments name the same object: an exchange with itself changes nothing
                int const w = (int)(o.a[2] & 1);
                a_str_swap(box[w].s, box[w].s);
                c.st.add("probe.swap_with_itself");
                check_all("a_str_swap");
                break;
            }
            a_str_swap(box[0].s, box[1].s);
            std::swap(box[0].M, box[1].M); std::swap(box[0].t, box[1].t);
            check_all("a_str_swap");
            break;
        }
        case S_EXIT:
        {
            bool const had_buffer = a_str_ptr(s) != nullptr;
            if (a_str_len(s) == a_str_mem(s) && had_buffer) c.st.add("probe.exit_with_length_equal_capacity");
            char *r = nullptr;
            int rc = run.api("a_str_exit", [&] { r = a_str_exit(s); return r != nullptr || !had_buffer; }, [&] { return check(x, "a_str_exit"); });
            if (rc == SeqRun::API_VIOLATION || rc == SeqRun::API_FAULTED) break;
            if (rc != SeqRun::API_OK) { c.fail("unexpected-failure", "a_str_exit", "returned NULL although the string had a buffer and memory is available"); break; }
            if (r)
            {
                SimAlloc::Block const *blk = SA.block_at(r);
                if (!blk) { c.fail("storage-not-owned", "a_str_exit", "returned pointer is not the start of a live block"); break; }
                if (blk->size < len + 1) { c.fail("terminator-outside-block", "a_str_exit", "handed-over block has %zu bytes for %zu bytes of content plus the NUL", blk->size, len); break; }
                if (memcmp(r, x.M.data(), len) != 0) { c.fail("content-mismatch", "a_str_exit", "handed-over bytes differ from the model"); break; }
                if (r[len] != 0) { c.fail("terminator-missing", "a_str_exit", "handed-over string is not NUL-terminated after %zu bytes", len); break; }
                c.site("a_alloc(free)");
                a_alloc(r, 0);
            }
            x.M.clear(); x.t = false;
            if (a_str_len(s) != 0 || a_str_mem(s) != 0 || a_str_ptr(s) != nullptr) { c.fail("not-reset-after-handover", "a_str_exit", "string object still references storage after exit"); break; }
            check(x, "a_str_exit");
            break;
        }
        case S_CMP:
        {
            uint64_t const v = (uint64_t)(o.a[1] < 0 ? -o.a[1] : o.a[1]);
            auto sgn = [](int z) { return (z > 0) - (z < 0); };
            auto ref_cmp = [&](std::string const &a, std::string const &b) {
                size_t m = std::min(a.size(), b.size());
                int r = m ? memcmp(a.data(), b.data(), m) : 0;
                if (r) return sgn(r);
                return (a.size() > b.size()) - (a.size() < b.size());
            };
            // other operand: the second string, or a variant of this string's content
            std::string other;
            switch (v % 5) { case 0: other = x.M; break; case 1: other = x.M.substr(0, x.M.size() / 2); break; case 2: other = x.M + "a"; break; case 3: other = x.M; if (!other.empty()) other[other.size() - 1] = (char)(other[other.size() - 1] + 1); break; default: other = payload(v % 7, (int64_t)v, true); break; }
            int got, want;
            if ((v / 5) % 4 == 0 && len)
            { // the other operand is a prefix of (or longer view into) the string's own buffer
                size_t const k = (size_t)((v / 20) % (a_str_mem(s) + 1));
                std::string oth(a_str_ptr(s), std::min(k, a_str_mem(s)));
                // bytes beyond the length are indeterminate: only prefixes of the content make a defined comparison
                if (k <= len)
                {
                    c.site("a_str_cmpn"); int g1 = a_str_cmpn(x.s, a_str_ptr(s), k); int w1 = ref_cmp(x.M, x.M.substr(0, k));
                    if (sgn(g1) != w1) { c.fail("comparison-wrong", "a_str_cmpn", "comparing the string with the first %zu bytes of its own buffer gives sign %d, expected %d", k, sgn(g1), w1); break; }
                    c.site("a_str_cmp_"); int g2 = a_str_cmp_(a_str_ptr(s), k, a_str_ptr(s), len); int w2 = ref_cmp(x.M.substr(0, k), x.M);
                    if (sgn(g2) != w2) { c.fail("comparison-wrong", "a_str_cmp_", "comparing two views of one buffer (%zu and %zu bytes) gives sign %d, expected %d", k, len, sgn(g2), w2); break; }
                    c.st.add("probe.compare_with_own_buffer");
                }
            }
            if ((v / 7) % 6 == 5 && len <= 256)
            { // the other operand is an enormous (2^31 .. 2^32+k byte) zero-page mapping that starts with this string's
              // content: only the common prefix is ever read, the order is decided by lengths that do not fit an int
                unsigned char *giant = giant_map();
                if (giant)
                {
                    static size_t const EXTRA[] = {((size_t)1 << 31) - 1, (size_t)1 << 31, ((size_t)1 << 31) + 1, ((size_t)1 << 32) - 1, (size_t)1 << 32, ((size_t)1 << 32) + 5};
                    size_t const big = len + EXTRA[(v / 42) % 6];
                    memcpy(giant, x.M.data(), len);
                    c.site("a_str_cmpn"); int const g1 = a_str_cmpn(x.s, giant, big);
                    c.site("a_str_cmp_"); int const g2 = a_str_cmp_(giant, big, a_str_ptr(s) ? a_str_ptr(s) : (char const *)giant, len);
                    memset(giant, 0, len);
                    c.st.add("probe.compare_with_giant_view");
                    if (sgn(g1) != -1) { c.fail("comparison-wrong", "a_str_cmpn", "a %zu-byte string against a %zu-byte block with the same prefix gives sign %d, expected -1", len, big, sgn(g1)); break; }
                    if (sgn(g2) != 1) { c.fail("comparison-wrong", "a_str_cmp_", "a %zu-byte block against its own %zu-byte prefix gives sign %d, expected 1", big, len, sgn(g2)); break; }
                }
            }
            switch ((int)(((o.a[0] % 4) + 4) % 4))
            {
            case 0: c.site("a_str_cmp"); got = a_str_cmp(x.s, y.s); want = ref_cmp(x.M, y.M); if (sgn(got) != want) c.fail("comparison-wrong", "a_str_cmp", "sign %d, bytewise-then-length order says %d", sgn(got), want); break;
            case 1:
            {
                char *buf = (char *)SA.halloc(other.size() ? other.size() : 1); memcpy(buf, other.data(), other.size());
                c.site("a_str_cmpn"); got = a_str_cmpn(x.s, buf, other.size()); want = ref_cmp(x.M, other);
                SA.hfree(buf);
                if (sgn(got) != want) c.fail("comparison-wrong", "a_str_cmpn", "sign %d, bytewise-then-length order says %d", sgn(got), want);
                break;
            }
            case 2:
            {
                for (auto &ch : other) if (ch == 0) ch = 'q';
                char *buf = (char *)SA.halloc(other.size() + 1); memcpy(buf, other.data(), other.size()); buf[other.size()] = 0;
                c.site("a_str_cmps"); got = a_str_cmps(x.s, buf); want = ref_cmp(x.M, other);
                SA.hfree(buf);
                if (sgn(got) != want) c.fail("comparison-wrong", "a_str_cmps", "sign %d, bytewise-then-length order says %d", sgn(got), want);
                break;
            }
            default:
            {
                char *b0 = (char *)SA.halloc(x.M.size() ? x.M.size() : 1); memcpy(b0, x.M.data(), x.M.size());
                char *b1 = (char *)SA.halloc(other.size() ? other.size() : 1); memcpy(b1, other.data(), other.size());
                c.site("a_str_cmp_"); got = a_str_cmp_(b0, x.M.size(), b1, other.size()); want = ref_cmp(x.M, other);
                SA.hfree(b0); SA.hfree(b1);
                if (sgn(got) != want) c.fail("comparison-wrong", "a_str_cmp_", "sign %d, bytewise-then-length order says %d", sgn(got), want);
                break;
            }
            }
            break;
        }
        case S_RECREATE:
        {
            if (!destroy(x)) break;
            create(x, (o.a[0] & 1) != 0);
            if (c.ok()) check(x, "a_str_new");
            break;
        }
        case S_ACCESS:
        {
            size_t const cap = a_str_mem(s);
            size_t const idx = pick_index(o.a[0], o.a[1], len);
            c.site("a_str_at");
            char *q = a_str_at(s, idx);
            if (idx >= cap) { if (q) c.fail("out-of-range-access-returned-pointer", "a_str_at", "index %zu >= capacity %zu returned a pointer", idx, cap); }
            else if (!q || !SA.owns(q, 1)) c.fail("returned-pointer-outside-storage", "a_str_at", "index %zu < capacity %zu: pointer missing or outside owned storage", idx, cap);
            else if (idx < len && *q != x.M[idx]) c.fail("access-wrong-element", "a_str_at", "byte %zu differs from the model", idx);
            if (c.ok() && idx < cap && a_str_at_(s, idx) != q) c.fail("access-wrong-element", "a_str_at_", "unchecked and checked accessors disagree for index %zu", idx);
            if (!c.ok()) break;
            int64_t const mag = idx > (size_t)INT64_MAX ? INT64_MAX : (int64_t)idx;
            int64_t const i = (o.a[2] & 1) ? -mag : mag;
            c.site("a_str_of");
            q = a_str_of(s, (a_diff)i);
            bool valid; size_t pos = 0;
            if (i >= 0) { valid = (uint64_t)i < cap; pos = (size_t)i; }
            else { valid = (uint64_t)(-i) <= len; pos = valid ? len - (size_t)(-i) : 0; }
            if (!valid) { if (q) c.fail("out-of-range-access-returned-pointer", "a_str_of", "index %lld with length %zu capacity %zu returned a pointer", (long long)i, len, cap); }
            else if (!q || !SA.owns(q, 1)) c.fail("returned-pointer-outside-storage", "a_str_of", "index %lld: pointer missing or outside owned storage", (long long)i);
            else if (pos < len && *q != x.M[pos]) c.fail("access-wrong-element", "a_str_of", "index %lld differs from model byte %zu", (long long)i, pos);
            break;
        }
        case S_UTF_LEN:
        {
            // a_utf_len over the string content: count and stop offset per the decoder's own reports
            c.site("a_utf_len");
            a_size stop = 12345;
            a_size const n = a_utf_len(s, &stop);
            // reference: advance by exactly what the library's own decoder reports (that is how the property defines the counter)
            size_t pos = 0, cnt = 0;
            unsigned char const *d = (unsigned char const *)x.M.data();
            while (pos < len) { unsigned const r = a_utf_decode(d + pos, len - pos, nullptr); if (!r || r > len - pos) break; pos += r; ++cnt; }
            if (n != cnt || stop != pos) c.fail("utf-length-wrong", "a_utf_len", "counted %zu code points, stopped at %zu; reference says %zu and %zu (length %zu)", (size_t)n, (size_t)stop, cnt, pos, len);
            break;
        }
        default: break;
        }
    }

};

static inline void gen_str_plan(Rng &r, Plan &p, bool for_faults, int tier)
{
    (void)tier;
    p.set("target", 2);
    p.set("alloc_move", r.chance(1, 2)); p.set("alloc_junk", r.chance(3, 4)); p.set("alloc_reuse", r.chance(1, 4));
    p.set("junk_seed", (int64_t)r.below(256));
    p.set("alloc_default", r.chance(1, 6));
    static const int64_t ML[] = {8, 16, 40, 200, 600, 40, 200, 6000, 40, 200, 600, 300000};
    p.set("maxlen", r.pick(ML));
    p.set("heap", r.chance(1, 2));
    bool en[S__COUNT];
    for (int k = 0; k < S__COUNT; ++k) en[k] = r.chance(1, 2);
    if (!(en[S_CATC] || en[S_CATN] || en[S_CATS] || en[S_CATF] || en[S_UTF_CATC])) en[r.chance(1, 2) ? S_CATN : S_CATF] = true;
    std::vector<int> kinds;
    for (int k = 0; k < S__COUNT; ++k) if (en[k]) { kinds.push_back(k); if (k <= S_UTF_CATC) { kinds.push_back(k); kinds.push_back(k); } }
    int64_t const nops = for_faults ? r.range(3, 40) : r.geolen(6, 300);
    bool const two = r.chance(1, 2);
    for (int64_t i = 0; i < nops; ++i)
    {
        Op o; o.kind = 100 + kinds[r.below(kinds.size())];
        o.client = two ? (int)r.below(2) : 0;
        for (int k = 0; k < 4; ++k) o.a[k] = (int64_t)r.below(1000);
        p.ops.push_back(o);
    }
}

} // namespace sim
