// Engine `ctl`: C12 (PID family in closed loop with faulty sensor / operator / restarts) and
// C16 (transfer function, low-pass, high-pass over input histories with resets and lock-step replicas).
#include "core/core.h"
#include "core/simalloc.h"
#include "core/driver.h"
#include <cmath>
#include <cfloat>
#include <deque>
extern "C" {
#include "a/pid.h"
#include "a/pid_fuzzy.h"
#include "a/pid_neuro.h"
#include "a/mf.h"
#include "a/tf.h"
#include "a/lpf.h"
#include "a/hpf.h"
}

namespace sim {

SimAlloc SA;

enum CtlOp
{
    P_STEP, P_STEPS, P_SETPOINT, P_RETUNE, P_MODE, P_ZERO, P_SENSOR_FAULT, P_WPID, P_OPR, // C12
    F_INPUT, F_INPUTS, F_ZERO, F_QUIET, F_GEN, F_SETNUM, F_SETDEN,                           // C16
    CTL__COUNT
};
static char const *const CTL_OP_NAMES[] = {"step", "steps", "setpoint", "retune", "mode", "zero", "sensor_fault", "wpid", "opr",
                                           "input", "inputs", "fzero", "quiet", "gen", "setnum", "setden"};

static inline uint64_t mag64(int64_t v) { return (uint64_t)(v < 0 ? -v : v); }
// The engine is written against the library's real type.  In the default build R is double; the alternative build
// (-DA_SIZE_REAL=4) makes it float.  Values that are handed to the library are always exactly representable in R
// (they are generated with at most 11 significant bits, or rounded to R first), values read back are promoted exactly.
typedef a_real R;
static constexpr int MANT = sizeof(R) == 4 ? 24 : 53;      // significand bits of R
static constexpr bool R_IS_DOUBLE = sizeof(R) == 8;
static inline double toR(double x) { return (double)(R)x; } // round to the library's precision
// exact regime: multiples of 1/8 within +-64.  general regime: m * 2^e, |m| < 1024, e in [-24, 20]
static inline double value_of(int regime, int64_t m, int64_t e)
{
    if (regime == 0) return (double)((int64_t)(mag64(m) % 1025) - 512) / 8.0;
    if (regime == 2)
    { // extreme regime: |m| < 1024 times a power of two anywhere in the upper part of the exponent range of a_real, finite
        double const mt = (double)((int64_t)(mag64(m) % 2047) - 1023);
        int const top = R_IS_DOUBLE ? 1010 : 114; // 1023 * 2^top stays finite in a_real
        int const exx = top - (int)(mag64(e) % (R_IS_DOUBLE ? 700u : 90u));
        return std::ldexp(mt, exx);
    }
    double mant = (double)((int64_t)(mag64(m) % 2047) - 1023);
    int ex = (int)(mag64(e) % 45) - 24;
    return std::ldexp(mant, ex);
}
static inline double ulp_of(double x) { x = std::fabs(x); double const mn = R_IS_DOUBLE ? DBL_MIN : (double)FLT_MIN; if (x < mn) return R_IS_DOUBLE ? DBL_TRUE_MIN : (double)FLT_TRUE_MIN; int e; std::frexp(x, &e); return std::ldexp(1.0, e - MANT); } // one unit in the last place of R
static inline bool finite_all(double const *v, size_t n) { for (size_t i = 0; i < n; ++i) if (!std::isfinite(v[i])) return false; return true; }
static inline uint64_t bits_of(double d) { uint64_t u; memcpy(&u, &d, 8); return u; }
static inline double sat(double x, double lo, double hi) { return lo < x ? (x < hi ? x : hi) : lo; }

// ================================================================================================ C12
struct PidSim
{
    Ctx &c;
    int ctype = 0;  // 0 plain, 1 fuzzy, 2 neuro
    int regime = 0; // 0 exact dyadic, 1 general
    int mode = 1;   // 0 run, 1 pos, 2 inc
    int plant = 0;
    // controllers: main + up to two replicas that were (re)started at the same instant
    struct Unit
    {
        a_pid *pid = nullptr; a_pid_fuzzy *fz = nullptr; a_pid_neuro *nr = nullptr;
        void *bfuzz = nullptr;
        bool alive = false;
    };
    Unit U[4]; // 0 main, 1-2 restart replicas, 3 lock-step replica driven through the C++ member wrappers of the headers
    // second plain controller for the pos/inc lock-step pair
    a_pid *pair_inc = nullptr; bool pair_valid = false;
    // fuzzy tables (shared, harness blocks of exact size)
    unsigned order = 3, nfuzz = 3; int family = 0; unsigned opr = 0;
    R *me = nullptr, *mec = nullptr, *mkp = nullptr, *mki = nullptr, *mkd = nullptr;
    // environment
    double setp = 0, y = 0, sensed = 0, last_delivered = 0;
    int fault_kind = 0, fault_left = 0; double fault_val = 0;
    // reference model of the plain controller (long double, documented equations)
    struct Ref { long double sum = 0, out = 0, var = 0, fdb = 0, err = 0; } ref;
    uint64_t tabseed = 1;
    unsigned nulltab = 0; // bit 0/1/2: the kp / ki / kd rule base is absent (NULL), which the API allows

    explicit PidSim(Ctx &c_) : c(c_) {}

    a_pid *P(Unit &u) { return ctype == 0 ? u.pid : ctype == 1 ? &u.fz->pid : &u.nr->pid; }

    double tabval(uint64_t i, int64_t span8)
    { // deterministic table entries from the plan's tabseed: multiples of 1/8 in [-span8/8, span8/8]
        uint64_t h = splitmix64(tabseed * 0x9E3779B97F4A7C15ull + i);
        return (double)((int64_t)(h % (uint64_t)(2 * span8 + 1)) - span8) / 8.0;
    }
    void build_tables()
    {
        unsigned const n = order;
        // membership tables: n entries of (type, params...), terminated implicitly by nrule
        std::vector<double> t;
        double const RANGE = 4.0;
        auto centre = [&](int i) { return n == 1 ? 0.0 : -RANGE + 2 * RANGE * (double)i / (double)(n - 1); };
        double const sp = n == 1 ? RANGE : 2 * RANGE / (double)(n - 1);
        std::vector<size_t> starts;
        for (unsigned i = 0; i < n; ++i)
        {
            double ci = centre((int)i), lo = ci - sp, hi = ci + sp;
            starts.push_back(t.size());
            switch (family)
            {
            default:
            case 0: t.push_back(A_MF_TRI); t.push_back(i == 0 ? ci : lo); t.push_back(ci); t.push_back(i + 1 == n ? ci : hi); break;
            case 1: t.push_back(A_MF_TRAP); t.push_back(lo + sp / 4); t.push_back(ci - sp / 4); t.push_back(ci + sp / 4); t.push_back(hi - sp / 4); break;
            case 2: t.push_back(A_MF_GAUSS); t.push_back(sp / 2); t.push_back(ci); break;
            case 3: t.push_back(A_MF_GBELL); t.push_back(sp / 2); t.push_back(2); t.push_back(ci); break;
            case 4:
                if (i == 0) { t.push_back(A_MF_SIG); t.push_back(-4 / sp); t.push_back(ci + sp / 2); }
                else if (i + 1 == n) { t.push_back(A_MF_SIG); t.push_back(4 / sp); t.push_back(ci - sp / 2); }
                else { t.push_back(A_MF_GAUSS); t.push_back(sp / 3); t.push_back(ci); }
                break;
            case 5:
                if (i == 0) { t.push_back(A_MF_Z); t.push_back(ci); t.push_back(hi); }
                else if (i + 1 == n) { t.push_back(A_MF_S); t.push_back(lo); t.push_back(ci); }
                else { t.push_back(A_MF_PI); t.push_back(lo); t.push_back(ci - sp / 8); t.push_back(ci + sp / 8); t.push_back(hi); }
                break;
            case 6:
                if (i == 0) { t.push_back(A_MF_LINZ); t.push_back(ci); t.push_back(hi); }
                else if (i + 1 == n) { t.push_back(A_MF_LINS); t.push_back(lo); t.push_back(ci); }
                else { t.push_back(A_MF_TRI); t.push_back(lo); t.push_back(ci); t.push_back(hi); }
                break;
            case 7:
                if (i % 3 == 0) { t.push_back(A_MF_GAUSS2); t.push_back(sp / 3); t.push_back(ci - sp / 8); t.push_back(sp / 3); t.push_back(ci + sp / 8); }
                else if (i % 3 == 1) { t.push_back(A_MF_PSIG); t.push_back(6 / sp); t.push_back(ci - sp / 2); t.push_back(-6 / sp); t.push_back(ci + sp / 2); }
                else { t.push_back(A_MF_DSIG); t.push_back(6 / sp); t.push_back(ci - sp / 2); t.push_back(6 / sp); t.push_back(ci + sp / 2); }
                break;
            }
        }
        // a table may also be shorter than the order and end with A_MF_NUL: the remaining sets then do not exist.  The block is
        // exactly as long as the shortened table, so reading on behind the terminator is an out-of-bounds access
        std::vector<double> te = t, tec = t;
        if (n >= 2 && (tabseed >> 3) % 6 == 0)
        {
            unsigned const ke = 1 + (unsigned)((tabseed >> 6) % (n - 1)), kec = 1 + (unsigned)((tabseed >> 11) % n);
            te.resize(starts[ke]); te.push_back(A_MF_NUL);
            if (kec < n) { tec.resize(starts[kec]); tec.push_back(A_MF_NUL); }
            c.st.add("probe.fuzzy_membership_table_ends_with_nul");
        }
        me = (R *)SA.halloc(te.size() * sizeof(R)); for (size_t i = 0; i < te.size(); ++i) me[i] = (R)te[i];
        mec = (R *)SA.halloc(tec.size() * sizeof(R));
        for (size_t i = 0; i < tec.size(); ++i) mec[i] = (R)tec[i]; // same family for the error change
        mkp = (R *)SA.halloc(n * n * sizeof(R)); mki = (R *)SA.halloc(n * n * sizeof(R)); mkd = (R *)SA.halloc(n * n * sizeof(R));
        for (unsigned i = 0; i < n * n; ++i) { mkp[i] = (R)tabval(i, 32); mki[i] = (R)std::fabs(tabval(1000 + i, 4)); /* effective ki = base + weighted mean must stay >= 0 */ mkd[i] = (R)tabval(2000 + i, 8); }
        // Ruspini-style partitions (tri, trap with quarter shoulders) activate at most two sets at once
        nfuzz = (family == 0 || family == 6) ? (n < 2 ? n : 2) : n;
        if (family == 1) nfuzz = n < 2 ? n : 2;
    }
    // ---- parameters currently in force (changed by retune / opr / wpid ops)
    double kp = 1, ki = 0, kd = 0, summax = 0, summin = 0, outmax = 0, outmin = 0;
    double nk = 1, wp = 1, wi = 0, wd = 0;

    void alloc_unit(Unit &u)
    {
        if (ctype == 0) { u.pid = (a_pid *)SA.halloc(sizeof(a_pid)); memset(u.pid, 0, sizeof(a_pid)); }
        else if (ctype == 1)
        {
            u.fz = (a_pid_fuzzy *)SA.halloc(sizeof(a_pid_fuzzy)); memset(u.fz, 0, sizeof(a_pid_fuzzy));
            // the documented size macro must expand correctly for any expression argument, not only for identifiers
            {
                bool const wide = (tabseed & 1) != 0; unsigned const a = nfuzz, b = nfuzz;
                size_t const want = sizeof(unsigned int) * nfuzz * 2 + sizeof(a_real) * nfuzz * (2 + (size_t)nfuzz);
                size_t const m1 = A_PID_FUZZY_BFUZZ(wide ? a : b), m2 = A_PID_FUZZY_BFUZZ(a & b), m3 = A_PID_FUZZY_BFUZZ(nfuzz + 0), m4 = A_PID_FUZZY_BFUZZ(a == b ? nfuzz : 1u);
                if (m1 != want || m2 != want || m3 != want || m4 != want) { c.fail("scratch-size-macro-wrong", "A_PID_FUZZY_BFUZZ", "A_PID_FUZZY_BFUZZ(expression) gives %zu / %zu / %zu / %zu bytes for n = %u, the documented layout needs %zu", m1, m2, m3, m4, nfuzz, want); }
            }
            u.bfuzz = SA.halloc(A_PID_FUZZY_BFUZZ(nfuzz));
        }
        else { u.nr = (a_pid_neuro *)SA.halloc(sizeof(a_pid_neuro)); memset(u.nr, 0, sizeof(a_pid_neuro)); }
        u.alive = true;
    }
    void free_unit(Unit &u)
    {
        if (!u.alive) return;
        if (u.pid) SA.hfree(u.pid);
        if (u.fz) SA.hfree(u.fz);
        if (u.nr) SA.hfree(u.nr);
        if (u.bfuzz) SA.hfree(u.bfuzz);
        u = Unit();
    }
    // the setters must install exactly the values they were given: the equations are claimed for the configured gains
    bool verify_config(Unit &u, char const *site)
    {
        a_pid const *pd = P(u);
        if ((double)pd->kp != kp || (double)pd->ki != ki || (double)pd->kd != kd)
            return c.fail("setter-did-not-install-value", site, "gains in the controller are %.17g %.17g %.17g after setting %.17g %.17g %.17g", (double)pd->kp, (double)pd->ki, (double)pd->kd, kp, ki, kd);
        if (ctype == 1)
        {
            a_pid_fuzzy const *f = u.fz;
            if ((double)f->kp != kp || (double)f->ki != ki || (double)f->kd != kd) return c.fail("setter-did-not-install-value", site, "fuzzy base gains are %.17g %.17g %.17g after setting %.17g %.17g %.17g", (double)f->kp, (double)f->ki, (double)f->kd, kp, ki, kd);
            if (f->nrule != order || f->me != me || f->mec != mec || f->mkp != ((nulltab & 1) ? nullptr : mkp) || f->mki != ((nulltab & 2) ? nullptr : mki) || f->mkd != ((nulltab & 4) ? nullptr : mkd))
                return c.fail("setter-did-not-install-value", "a_pid_fuzzy_set_rule", "rule base pointers or order in the controller differ from what was set");
            if (f->nfuzz != nfuzz || a_pid_fuzzy_bfuzz(f) != u.bfuzz) return c.fail("setter-did-not-install-value", "a_pid_fuzzy_set_bfuzz", "scratch buffer or its size in the controller differ from what was set");
        }
        if (ctype == 2)
        {
            a_pid_neuro const *n = u.nr;
            if ((double)n->k != nk) return c.fail("setter-did-not-install-value", site, "output coefficient K is %.17g after setting %.17g", (double)n->k, nk);
        }
        return true;
    }
    // apply the parameters in force to a unit through the public setters
    void configure(Unit &u)
    {
        a_pid *pd = P(u);
        pd->summax = summax; pd->summin = summin; pd->outmax = outmax; pd->outmin = outmin;
        if (ctype == 0) { c.site("a_pid_set_kpid"); a_pid_set_kpid(u.pid, kp, ki, kd); }
        else if (ctype == 1)
        {
            c.site("a_pid_fuzzy_set_opr"); a_pid_fuzzy_set_opr(u.fz, opr);
            c.site("a_pid_fuzzy_set_bfuzz"); a_pid_fuzzy_set_bfuzz(u.fz, u.bfuzz, nfuzz);
            c.site("a_pid_fuzzy_set_rule"); a_pid_fuzzy_set_rule(u.fz, order, me, mec, (nulltab & 1) ? nullptr : mkp, (nulltab & 2) ? nullptr : mki, (nulltab & 4) ? nullptr : mkd);
            c.site("a_pid_fuzzy_set_kpid"); a_pid_fuzzy_set_kpid(u.fz, kp, ki, kd);
        }
        else
        {
            c.site("a_pid_neuro_set_kpid"); a_pid_neuro_set_kpid(u.nr, nk, kp, ki, kd);
            c.site("a_pid_neuro_set_wpid"); a_pid_neuro_set_wpid(u.nr, wp, wi, wd);
            verify_weights(u, "a_pid_neuro_set_wpid");
        }
        verify_config(u, ctype == 0 ? "a_pid_set_kpid" : ctype == 1 ? "a_pid_fuzzy_set_kpid" : "a_pid_neuro_set_kpid");
    }
    bool verify_weights(Unit &u, char const *site)
    {
        if ((double)u.nr->wp != wp || (double)u.nr->wi != wi || (double)u.nr->wd != wd) return c.fail("setter-did-not-install-value", site, "weights in the controller are %.17g %.17g %.17g after setting %.17g %.17g %.17g", (double)u.nr->wp, (double)u.nr->wi, (double)u.nr->wd, wp, wi, wd);
        return true;
    }
    unsigned zero_calls = 0;
    void zero_unit(Unit &u)
    {
        bool const alias = (++zero_calls & 1) != 0; // every other restart goes through the documented *_init spelling
        if (alias) c.st.add("probe.restart_through_init_alias");
        if (ctype == 0) { c.site("a_pid_zero"); if (alias) a_pid_init(u.pid); else a_pid_zero(u.pid); }
        else if (ctype == 1) { c.site("a_pid_fuzzy_zero"); if (alias) a_pid_fuzzy_init(u.fz); else a_pid_fuzzy_zero(u.fz); }
        else { c.site("a_pid_neuro_zero"); if (alias) a_pid_neuro_init(u.nr); else a_pid_neuro_zero(u.nr); }
        // a freshly initialised controller has an empty history: every remembered sample, sum and output is zero
        a_pid const *pd = P(u);
        if (pd->sum != 0 || pd->out != 0 || pd->var != 0 || pd->fdb != 0 || pd->err != 0 || (ctype == 2 && u.nr->ec != 0))
            c.fail("zero-is-not-a-restart", ctype == 0 ? "a_pid_zero" : ctype == 1 ? "a_pid_fuzzy_zero" : "a_pid_neuro_zero", "state after zeroing is not the empty history (sum=%g out=%g var=%g fdb=%g err=%g)", (double)pd->sum, (double)pd->out, (double)pd->var, (double)pd->fdb, (double)pd->err);
    }
    void junk_state(Unit &u, double j)
    { // different junk in every *state* field; parameters stay
        a_pid *pd = P(u);
        pd->sum = j; pd->out = -j * 3; pd->var = j / 7; pd->fdb = 1 - j; pd->err = j * j;
        if (ctype == 2) u.nr->ec = j + 5;
    }
    double step_unit(Unit &u, double set, double fdb)
    {
        if (ctype == 0)
        {
            if (mode == 0) { c.site("a_pid_run"); return a_pid_run(u.pid, set, fdb); }
            if (mode == 1) { c.site("a_pid_pos"); return a_pid_pos(u.pid, set, fdb); }
            c.site("a_pid_inc"); return a_pid_inc(u.pid, set, fdb);
        }
        if (ctype == 1)
        {
            if (mode == 0) { c.site("a_pid_fuzzy_run"); return a_pid_fuzzy_run(u.fz, set, fdb); }
            if (mode == 1) { c.site("a_pid_fuzzy_pos"); return a_pid_fuzzy_pos(u.fz, set, fdb); }
            c.site("a_pid_fuzzy_inc"); return a_pid_fuzzy_inc(u.fz, set, fdb);
        }
        if (mode == 0) { c.site("a_pid_neuro_run"); return a_pid_neuro_run(u.nr, set, fdb); }
        c.site("a_pid_neuro_inc"); return a_pid_neuro_inc(u.nr, set, fdb); // the neuron controller has no positional form
    }
    double step_members(Unit &u, double set, double fdb)
    {
        c.site("C++ member wrapper");
        if (ctype == 0) return mode == 0 ? u.pid->run(set, fdb) : mode == 1 ? u.pid->pos(set, fdb) : u.pid->inc(set, fdb);
        if (ctype == 1) return mode == 0 ? u.fz->run(set, fdb) : mode == 1 ? u.fz->pos(set, fdb) : u.fz->inc(set, fdb);
        return mode == 0 ? u.nr->run(set, fdb) : u.nr->inc(set, fdb);
    }
    void configure_members(Unit &u)
    {
        a_pid *pd = P(u);
        pd->summax = summax; pd->summin = summin; pd->outmax = outmax; pd->outmin = outmin;
        c.site("C++ member wrapper");
        if (ctype == 0) { u.pid->set_kpid(kp, ki, kd); u.pid->init(); }
        else if (ctype == 1)
        {
            u.fz->set_opr(opr); u.fz->set_bfuzz(u.bfuzz, nfuzz); u.fz->set_rule(order, me, mec, (nulltab & 1) ? nullptr : mkp, (nulltab & 2) ? nullptr : mki, (nulltab & 4) ? nullptr : mkd); u.fz->set_kpid(kp, ki, kd); u.fz->init();
            if (u.fz->bfuzz() != u.bfuzz || a_pid_fuzzy_bfuzz(u.fz) != u.bfuzz) c.fail("scratch-buffer-accessor-wrong", "a_pid_fuzzy_bfuzz", "the scratch-buffer accessor does not return the buffer that was installed");
        }
        else { u.nr->set_kpid(nk, kp, ki, kd); u.nr->set_wpid(wp, wi, wd); u.nr->init(); verify_weights(u, "C++ member wrapper"); }
        verify_config(u, "C++ member wrapper");
    }
    char const *step_name() const
    {
        static char const *const N[3][3] = {{"a_pid_run", "a_pid_pos", "a_pid_inc"}, {"a_pid_fuzzy_run", "a_pid_fuzzy_pos", "a_pid_fuzzy_inc"}, {"a_pid_neuro_run", "a_pid_neuro_inc", "a_pid_neuro_inc"}};
        return N[ctype][mode];
    }

    // ---- independent evaluation of the fuzzy gain schedule: base gains + weighted mean of the consequents of the
    // active rules (memberships through the library's generic dispatcher a_mf, operators and defuzzifier re-derived)
    static double ref_opr(unsigned o, double a, double b)
    {
        switch (o)
        {
        default:
        case A_PID_FUZZY_EQU: return std::sqrt(a * b) * std::sqrt(1 - (1 - a) * (1 - b));
        case A_PID_FUZZY_CAP: return a < b ? a : b;
        case A_PID_FUZZY_CAP_ALGEBRA: return a * b;
        case A_PID_FUZZY_CAP_BOUNDED: return a + b - 1 > 0 ? a + b - 1 : 0;
        case A_PID_FUZZY_CUP: return a > b ? a : b;
        case A_PID_FUZZY_CUP_ALGEBRA: return a + b - a * b;
        case A_PID_FUZZY_CUP_BOUNDED: return a + b < 1 ? a + b : 1;
        }
    }
    static size_t mf_params(int type)
    {
        switch (type) { case A_MF_GAUSS: case A_MF_SIG: case A_MF_LINS: case A_MF_LINZ: case A_MF_S: case A_MF_Z: return 2; case A_MF_GBELL: case A_MF_TRI: return 3; default: return 4; }
    }
    void ref_memberships(double x, R const *tab, std::vector<double> &mu)
    {
        mu.assign(order, 0.0);
        for (unsigned i = 0; i < order; ++i)
        {
            int const type = (int)*tab++;
            if (type == A_MF_NUL) break; // the table ends here: the remaining sets do not exist
            mu[i] = a_mf((unsigned)type, (R)x, tab);
            tab += mf_params(type);
        }
    }
    // expected (kp, ki, kd) the fuzzy step must leave in ctx->pid; `amb` is set when a membership sits at the
    // activation threshold or the firing strength is so small that a reference would be ill-conditioned
    void ref_fuzzy_gains(double e, double ec, double g[3], bool &amb)
    {
        std::vector<double> me_, mec_;
        ref_memberships(e, me, me_); ref_memberships(ec, mec, mec_);
        amb = false;
        long double sw = 0, skp = 0, ski = 0, skd = 0;
        size_t ae = 0, aec = 0;
        for (unsigned i = 0; i < order; ++i) { if (me_[i] > 0 && me_[i] < 4096 * (double)A_REAL_EPSILON) amb = true; if (me_[i] > (double)A_REAL_EPSILON) ++ae; }
        for (unsigned i = 0; i < order; ++i) { if (mec_[i] > 0 && mec_[i] < 4096 * (double)A_REAL_EPSILON) amb = true; if (mec_[i] > (double)A_REAL_EPSILON) ++aec; }
        if (ae && aec)
            for (unsigned i = 0; i < order; ++i)
                for (unsigned j = 0; j < order; ++j)
                {
                    if (!(me_[i] > (double)A_REAL_EPSILON) || !(mec_[j] > (double)A_REAL_EPSILON)) continue;
                    long double const w = ref_opr(opr, me_[i], mec_[j]);
                    sw += w; skp += w * mkp[i * order + j]; ski += w * mki[i * order + j]; skd += w * mkd[i * order + j];
                }
        if (ae > nfuzz || aec > nfuzz) amb = true; // would overrun the scratch buffer: excluded by construction, never expected
        if (sw > 0 && sw < (R_IS_DOUBLE ? 1e-9 : 1e-3)) amb = true;
        g[0] = kp; g[1] = ki; g[2] = kd;
        if (nulltab & 1) skp = 0; if (nulltab & 2) ski = 0; if (nulltab & 4) skd = 0; // an absent rule base contributes nothing
        if (sw > 0) { g[0] = (double)(kp + skp / sw); g[1] = (double)(ki + ski / sw); g[2] = (double)(kd + skd / sw); }
        else if (ae && aec) c.st.add("probe.fuzzy_zero_total_firing_strength");
        if (!ae || !aec) c.st.add("probe.fuzzy_no_set_active");
    }

    // ---- one simulated sample
    bool sample()
    {
        // sensor
        double delivered = y;
        if (fault_left > 0)
        {
            --fault_left;
            switch (fault_kind)
            {
            case 1: delivered = last_delivered; c.st.add("fault.sensor_dropout_hold"); break;
            case 2: delivered = fault_val; c.st.add("fault.sensor_stuck_at"); break;
            case 3: delivered = y + fault_val; c.st.add("fault.sensor_spike"); break;
            case 4: delivered = -y; c.st.add("fault.sensor_sign_flip"); break;
            case 5: delivered = std::floor(y); c.st.add("fault.sensor_quantised"); break;
            default: break;
            }
        }
        if (regime == 0) { if (delivered > 64) delivered = 64; if (delivered < -64) delivered = -64; }
        if (regime == 2 && !std::isfinite(toR(delivered))) delivered = y; // a spike added to an extreme reading would leave the finite range
        delivered = toR(delivered);
        last_delivered = delivered;
        char const *name = step_name();
        Unit &m = U[0];
        a_pid *pd = P(m);
        a_pid const before = *pd;
        double fz_want[3] = {0, 0, 0}; bool fz_amb = true;
        if (ctype == 1 && regime != 2) { double const e0 = (double)(R)((R)setp - (R)delivered); ref_fuzzy_gains(e0, (double)(R)((R)e0 - (R)before.err), fz_want, fz_amb); }
        a_pid_neuro nbefore; if (ctype == 2) nbefore = *m.nr;
        double const out = step_unit(m, setp, delivered);
        ++c.steps;
        if (ctype == 1 && !fz_amb)
        { // the gains the inference leaves behind: base gains + weighted mean of the active rules' consequents
            double const got[3] = {pd->kp, pd->ki, pd->kd};
            static char const *const GN[3] = {"kp", "ki", "kd"};
            double const span[3] = {4.0, 0.5, 1.0}; // magnitude of the consequent tables
            for (int k = 0; k < 3; ++k)
            {
                double const tol = std::max(1e-9, 4096 * (double)A_REAL_EPSILON) * (std::fabs(fz_want[k]) + span[k]);
                if (!(std::fabs(got[k] - fz_want[k]) <= tol)) return c.fail("fuzzy-gain-schedule-wrong", name, "%s after the step is %.17g; base gain plus the weighted mean of the active rules' consequents is %.17g (e=%.17g ec=%.17g operator %u order %u)", GN[k], got[k], fz_want[k], setp - delivered, (setp - delivered) - before.err, opr, order);
            }
            c.st.add("probe.fuzzy_gain_schedule_checked");
        }
        // (1) limits and finiteness, every controller type, every mode
        if (!(out >= pd->outmin && out <= pd->outmax)) return c.fail("output-outside-limits", name, "output %.17g not within [%.17g, %.17g]", out, pd->outmin, pd->outmax);
        if (out != pd->out) return c.fail("returned-output-differs-from-state", name, "returned %.17g but the stored output is %.17g", out, pd->out);
        if (regime == 2)
        { // extreme regime: finite gains, limits and samples so large that products and sums overflow inside the controller.
          // Nothing about the equations or the inner state can be claimed there (the unchanged code lets the integrator
          // overflow); what remains of C12 is that the clamp still delivers an output inside the limits - never NaN
            c.st.add("probe.extreme_magnitude_step");
            if (!std::isfinite((double)pd->sum) || !std::isfinite((double)pd->var)) c.st.add("probe.extreme_inner_state_overflowed");
            y = toR(fault_val_free);
            c.obs(bits_of(out));
            c.st.state(fnv_mix(fnv_mix(FNV0, 0xE000u | (uint64_t)mode | ((uint64_t)ctype << 4)), (uint64_t)(out == pd->outmax) * 2 + (uint64_t)(out == pd->outmin)));
            return true;
        }
        double const st[] = {pd->kp, pd->ki, pd->kd, pd->sum, pd->out, pd->var, pd->fdb, pd->err};
        if (!finite_all(st, 8)) return c.fail("state-not-finite", name, "controller state contains a non-finite value (kp=%g ki=%g kd=%g sum=%g out=%g var=%g)", pd->kp, pd->ki, pd->kd, pd->sum, pd->out, pd->var);
        if (ctype == 1) { double g[] = {m.fz->kp, m.fz->ki, m.fz->kd}; if (!finite_all(g, 3)) return c.fail("state-not-finite", name, "fuzzy base gains not finite"); }
        if (ctype == 2) { double g[] = {m.nr->wp, m.nr->wi, m.nr->wd, m.nr->ec, m.nr->k}; if (!finite_all(g, 5)) return c.fail("state-not-finite", name, "neuron weights not finite (wp=%g wi=%g wd=%g ec=%g)", m.nr->wp, m.nr->wi, m.nr->wd, m.nr->ec); }
        // (2) integrator never moves further beyond its clamp once outside it (positional form)
        if (mode == 1 && ctype != 2)
        {
            if (before.sum >= pd->summax && pd->sum > before.sum) return c.fail("integrator-moved-beyond-clamp", name, "sum was %.17g >= summax %.17g and grew to %.17g", before.sum, pd->summax, pd->sum);
            if (before.sum <= pd->summin && pd->sum < before.sum) return c.fail("integrator-moved-beyond-clamp", name, "sum was %.17g <= summin %.17g and fell to %.17g", before.sum, pd->summin, pd->sum);
            if (before.sum >= pd->summax || before.sum <= pd->summin) c.st.add("probe.integrator_at_or_beyond_clamp");
        }
        if (out == pd->outmax && pd->outmax > pd->outmin) c.st.add("probe.output_saturated_high");
        if (out == pd->outmin && pd->outmax > pd->outmin) c.st.add("probe.output_saturated_low");
        // (3) difference equations, one step from the library's own previous state (plain and fuzzy controllers)
        if (ctype != 2)
        {
            // the error and the feedback difference are single subtractions of the inputs: take them as the library must
            double const e_d = (double)(R)((R)setp - (R)delivered), var_d = (double)(R)((R)before.fdb - (R)delivered);
            long double const e = e_d, var = var_d;
            long double gkp = pd->kp, gki = pd->ki, gkd = pd->kd; // for the fuzzy controller: the gains the step left behind
            long double want = 0, scale = 0, wsum = before.sum;
            if (mode == 0) { want = setp; scale = std::fabs(setp); }
            else if (mode == 1)
            {
                bool const integ = ((long double)before.sum > pd->summin && (long double)before.sum < pd->summax) || (long double)before.sum * e < 0;
                if (integ) wsum = (long double)before.sum + gki * e;
                want = gkp * e + wsum + gkd * var;
                scale = fabsl(gkp * e) + fabsl(wsum) + fabsl(gkd * var) + fabsl(gki * e);
                long double const tol_s = regime == 0 && ctype == 0 ? 0 : 64 * (long double)ulp_of((double)(fabsl((long double)before.sum) + fabsl(gki * e)));
                if (fabsl((long double)pd->sum - wsum) > tol_s) return c.fail("integrator-equation-violated", name, "sum %.17g, documented recurrence gives %.17Lg (integrate=%d)", pd->sum, wsum, (int)integ);
                if (!integ) c.st.add("probe.integration_suspended");
            }
            else
            {
                want = (long double)before.out + gkp * (e - (long double)before.err) + gki * e + gkd * (var - (long double)before.var);
                scale = fabsl((long double)before.out) + fabsl(gkp * (e - (long double)before.err)) + fabsl(gki * e) + fabsl(gkd * (var - (long double)before.var));
            }
            long double const wsat = want < pd->outmin ? (long double)pd->outmin : want > pd->outmax ? (long double)pd->outmax : want;
            long double const tol = (regime == 0 && ctype == 0) ? 0 : 64 * (long double)ulp_of((double)scale);
            if (fabsl((long double)out - wsat) > tol) return c.fail("difference-equation-violated", name, "output %.17g, documented equation gives %.17Lg (tolerance %.3Lg)", out, wsat, tol);
            if (var_d != pd->var) return c.fail("difference-equation-violated", name, "cached feedback difference %.17g, expected %.17g", pd->var, var_d);
            if (pd->fdb != delivered || pd->err != e_d) return c.fail("difference-equation-violated", name, "cached feedback/error not updated (fdb %.17g err %.17g, expected %.17g %.17g)", pd->fdb, pd->err, delivered, e_d);
        }
        // (3b) the single-neuron controller.  The header documents u(k) = u(k-1) + K*sum(w x)/sum|w| with the weight update
        // taken at step k; the code omits u(k-1) and updates the weights from the previous step's inputs.  Which of the two
        // is meant is not ours to decide, so both are accepted - but nothing else: inputs x_i = e, x_p = e(k)-e(k-1),
        // x_d = e(k)-2e(k-1)+e(k-2) as remembered by the controller, Hebbian update eta*e(k)*u(k-1)*x, normalised output.
        if (ctype == 2)
        {
            double const e_d = (double)(R)((R)setp - (R)delivered), ec_d = (double)(R)((R)e_d - (R)before.err);
            if (pd->fdb != delivered || pd->err != e_d) return c.fail("difference-equation-violated", name, "cached feedback/error not updated (fdb %.17g err %.17g, expected %.17g %.17g)", pd->fdb, pd->err, delivered, e_d);
            if (m.nr->ec != ec_d) return c.fail("difference-equation-violated", name, "remembered error change %.17g, e(k)-e(k-1) = %.17g", (double)m.nr->ec, ec_d);
            if (mode == 0)
            {
                if (out != sat(setp, pd->outmin, pd->outmax)) return c.fail("difference-equation-violated", name, "open-loop mode returned %.17g for set-point %.17g and limits [%.17g, %.17g]", out, setp, (double)pd->outmin, (double)pd->outmax);
            }
            else
            {
                double const xd_d = (double)(R)((R)ec_d - (R)nbefore.ec);
                if (pd->var != xd_d) return c.fail("difference-equation-violated", name, "remembered second difference %.17g, e(k)-2e(k-1)+e(k-2) = %.17g", pd->var, xd_d);
                long double const g = (long double)e_d * (long double)before.out;
                long double const eta[3] = {before.kp, before.ki, before.kd};
                long double const w0[3] = {nbefore.wp, nbefore.wi, nbefore.wd};
                long double const w1[3] = {m.nr->wp, m.nr->wi, m.nr->wd};
                long double const x_prev[3] = {nbefore.ec, before.err, before.var}, x_now[3] = {ec_d, e_d, xd_d};
                static char const *const WN[3] = {"wp", "wi", "wd"};
                bool ok_prev = true, ok_now = true; int bad = 0;
                // products that fall into the subnormal range of a_real (or overflow it) lose their relative accuracy in the
                // library's arithmetic, whatever the order of evaluation: those steps are not compared
                long double const rmin = R_IS_DOUBLE ? (long double)DBL_MIN : (long double)FLT_MIN, rmax4w = (R_IS_DOUBLE ? (long double)DBL_MAX : (long double)FLT_MAX) / 4;
                auto usable = [&](long double v) { v = fabsl(v); return v == 0 || (v >= rmin && v <= rmax4w); };
                for (int k = 0; k < 3; ++k)
                {
                    long double const da = eta[k] * g * x_prev[k], db = eta[k] * g * x_now[k];
                    if (!usable(g) || !usable(eta[k] * g) || !usable(g * x_prev[k]) || !usable(g * x_now[k]) || !usable(eta[k] * x_prev[k]) || !usable(eta[k] * x_now[k]) || !usable(da) || !usable(db)) { c.st.add("probe.neuron_weight_update_skipped_range"); continue; }
                    if (fabsl(w1[k] - (w0[k] + da)) > 64 * (long double)ulp_of((double)(fabsl(w0[k]) + fabsl(da)))) { ok_prev = false; bad = k; }
                    if (fabsl(w1[k] - (w0[k] + db)) > 64 * (long double)ulp_of((double)(fabsl(w0[k]) + fabsl(db)))) ok_now = false;
                }
                if (!ok_prev && !ok_now) return c.fail("neuron-weight-update-wrong", name, "%s went from %.17Lg to %.17Lg; eta*e(k)*u(k-1)*x gives %.17Lg", WN[bad], w0[bad], w1[bad], w0[bad] + eta[bad] * g * x_prev[bad]);
                long double const den = fabsl(w1[0]) + fabsl(w1[1]) + fabsl(w1[2]);
                if (den > 0)
                {
                    long double const q = (long double)m.nr->k * (w1[0] * ec_d + w1[1] * e_d + w1[2] * xd_d) / den;
                    long double const qs = fabsl((long double)m.nr->k) * (fabsl(w1[0] * ec_d) + fabsl(w1[1] * e_d) + fabsl(w1[2] * xd_d)) / den;
                    // the library forms the products and their sum in a_real: when those can overflow there, the quotient is
                    // infinite or NaN and the clamp decides the output (inside the limits, which is all C12 asks for then)
                    long double const rmax4 = (R_IS_DOUBLE ? (long double)DBL_MAX : (long double)FLT_MAX) / 4;
                    long double const sumabs = fabsl(w1[0] * ec_d) + fabsl(w1[1] * e_d) + fabsl(w1[2] * xd_d);
                    if (sumabs > rmax4 || fabsl((long double)m.nr->k) * sumabs > rmax4 || den > rmax4) c.st.add("probe.neuron_equation_skipped_intermediate_overflow");
                    else if (!usable(w1[0] * ec_d) || !usable(w1[1] * e_d) || !usable(w1[2] * xd_d) || !usable(den) || !usable(q) || !usable((long double)m.nr->k * w1[0]) || !usable((long double)m.nr->k * w1[1]) || !usable((long double)m.nr->k * w1[2]) || !usable(sumabs / den)) c.st.add("probe.neuron_equation_skipped_subnormal_products");
                    else if (std::isfinite((double)q) && std::isfinite((double)qs))
                    {
                        auto satl = [&](long double v) { return v < pd->outmin ? (long double)pd->outmin : v > pd->outmax ? (long double)pd->outmax : v; };
                        long double const tol = 64 * (long double)ulp_of((double)(qs + fabsl((long double)before.out)));
                        if (fabsl((long double)out - satl(q)) > tol && fabsl((long double)out - satl((long double)before.out + q)) > tol)
                            return c.fail("difference-equation-violated", name, "output %.17g; K*sum(w x)/sum|w| = %.17Lg (previous output %.17g)", out, q, (double)before.out);
                        c.st.add("probe.neuron_equation_checked");
                    }
                }
            }
        }
        // (4) restart replicas: bit-identical outputs step for step
        for (int k = 1; k < 3; ++k)
            if (U[k].alive)
            {
                double const o2 = step_unit(U[k], setp, delivered);
                if (bits_of(o2) != bits_of(out)) return c.fail("zero-is-not-a-restart", name, "a controller that was zeroed at the same instant (replica %d: %s) gives %.17g, the main controller %.17g", k, k == 1 ? "junk state then zero" : "documented init path", o2, out);
                c.st.add("probe.restart_replica_steps");
            }
        if (U[3].alive)
        {
            double const o3 = step_members(U[3], setp, delivered);
            if (bits_of(o3) != bits_of(out)) return c.fail("cxx-wrapper-disagrees", name, "the controller driven through the C++ member functions gives %.17g, the C API %.17g on the same history", o3, out);
            c.st.add("probe.cxx_member_replica_steps");
        }
        // (5) positional / incremental lock step (plain controller, exact regime, constant gains)
        if (pair_valid && ctype == 0 && mode == 1)
        {
            c.site("a_pid_inc");
            double const oi = a_pid_inc(pair_inc, setp, delivered);
            // equality is only claimed while neither clamp has been active in either controller
            long double const e = (long double)(R)((R)setp - (R)delivered);
            bool const integ = ((long double)before.sum > pd->summin && (long double)before.sum < pd->summax) || (long double)before.sum * e < 0;
            long double const raw = (long double)pd->kp * e + (long double)pd->sum + (long double)pd->kd * ((long double)before.fdb - (long double)delivered);
            if (!integ || raw < pd->outmin || raw > pd->outmax || oi <= pair_inc->outmin || oi >= pair_inc->outmax) { pair_valid = false; c.st.add("probe.pos_inc_pair_ended_by_limit"); }
            else
            {
                c.st.add("probe.pos_inc_pair_steps");
                if (bits_of(oi) != bits_of(out)) return c.fail("positional-incremental-disagree", "a_pid_inc", "no limit has been active, yet positional output %.17g != incremental output %.17g", out, oi);
            }
        }
        // plant
        double u = out;
        if (plant == 0) y = y + u / 4;
        else if (plant == 1) y = y + (u - y) / 4;
        else y = fault_val_free;
        if (regime == 0) { y = std::floor(y * 8) / 8; if (y > 64) y = 64; if (y < -64) y = -64; }
        else { if (!(std::fabs(y) < 1e7)) y = y > 0 ? 1e7 : -1e7; }
        y = toR(y);
        c.obs(bits_of(out)); c.obs(bits_of(pd->sum));
        uint64_t const flags = (uint64_t)mode | ((uint64_t)(out == pd->outmax) << 2) | ((uint64_t)(out == pd->outmin) << 3) | ((uint64_t)(pd->sum > 0) << 4) | ((uint64_t)(pd->sum < 0) << 5) | ((uint64_t)(pd->err > 0) << 6) | ((uint64_t)(pd->err < 0) << 7) | ((uint64_t)(pd->sum >= pd->summax) << 8) | ((uint64_t)(pd->sum <= pd->summin) << 9) | ((uint64_t)ctype << 10) | ((uint64_t)(fault_left > 0 ? fault_kind : 0) << 12);
        c.st.state(fnv_mix(fnv_mix(FNV0, flags), (uint64_t)(int64_t)std::floor(out > 1e9 ? 1e9 : out < -1e9 ? -1e9 : out)));
        return true;
    }
    double fault_val_free = 0;

    void exec(Plan const &p)
    {
        SA.reset();
        ctype = (int)p.knob("ctype", 0) % 3; regime = (int)p.knob("regime", 0) % 3; plant = (int)p.knob("plant", 0) % 3;
        mode = (int)p.knob("mode", 1) % 3; if (ctype == 2 && mode == 1) mode = 2;
        order = (unsigned)std::max<int64_t>(1, std::min<int64_t>(7, p.knob("order", 3))); family = (int)p.knob("family", 0) % 8; opr = (unsigned)(p.knob("opr", 0) % 7);
        tabseed = (uint64_t)p.knob("tabseed", 1);
        nulltab = (unsigned)(p.knob("nulltab", 0) & 7);
        if (nulltab && ctype == 1) c.st.add("probe.fuzzy_rule_base_absent");
        kp = value_of(regime, p.knob("kp"), p.knob("kp_e")); ki = std::fabs(value_of(regime, p.knob("ki"), p.knob("ki_e"))); kd = value_of(regime, p.knob("kd"), p.knob("kd_e"));
        if (ctype == 1 && regime == 0) { kp /= 2; kd /= 8; }
        kp = toR(kp); ki = toR(ki); kd = toR(kd);
        summax = std::fabs(value_of(regime, p.knob("summax"), p.knob("lim_e"))); summin = -std::fabs(value_of(regime, p.knob("summin"), p.knob("lim_e")));
        double o1 = value_of(regime, p.knob("outmax"), p.knob("lim_e")), o2 = value_of(regime, p.knob("outmin"), p.knob("lim_e"));
        outmax = std::max(o1, o2); outmin = std::min(o1, o2);
        nk = value_of(regime, p.knob("nk", 520), 24); wp = value_of(regime, p.knob("wp", 520), 24); wi = value_of(regime, p.knob("wi", 516), 24); wd = value_of(regime, p.knob("wd", 514), 24);
        if (ctype == 1) build_tables();
        alloc_unit(U[0]); configure(U[0]); zero_unit(U[0]); // documented init path: parameters, then init (= zero)
        alloc_unit(U[3]); configure_members(U[3]);
        bool const want_pair = ctype == 0 && regime == 0 && p.knob("pair", 0) != 0;
        if (want_pair)
        {
            pair_inc = (a_pid *)SA.halloc(sizeof(a_pid)); memset(pair_inc, 0, sizeof(a_pid));
            pair_inc->summax = summax; pair_inc->summin = summin; pair_inc->outmax = outmax; pair_inc->outmin = outmin;
            a_pid_set_kpid(pair_inc, kp, ki, kd); a_pid_init(pair_inc);
            pair_valid = mode == 1;
        }
        setp = 0; y = 0;
        for (size_t i = 0; i < p.ops.size() && c.ok(); ++i)
        {
            Op const &o = p.ops[i];
            c.opi = (int)i;
            c.st.add(std::string("op.pid.") + CTL_OP_NAMES[o.kind]);
            c.logf("op %zu %s a=%lld,%lld,%lld,%lld [mode=%d set=%g y=%g]\n", i, CTL_OP_NAMES[o.kind], (long long)o.a[0], (long long)o.a[1], (long long)o.a[2], (long long)o.a[3], mode, setp, y);
            switch (o.kind)
            {
            case P_STEP: fault_val_free = value_of(regime, o.a[0], o.a[1]); if (regime == 1 && std::fabs(fault_val_free) > 1e6) fault_val_free = std::ldexp(fault_val_free, -10); sample(); break;
            case P_STEPS:
            {
                size_t const n = 1 + (size_t)(mag64(o.a[0]) % 40);
                for (size_t k = 0; k < n && c.ok(); ++k) { fault_val_free = value_of(regime, o.a[1] + (int64_t)k * 37, o.a[2]); if (regime == 1 && std::fabs(fault_val_free) > 1e6) fault_val_free = std::ldexp(fault_val_free, -10); sample(); }
                break;
            }
            case P_SETPOINT:
            {
                switch (mag64(o.a[0]) % 4)
                {
                case 0: setp = value_of(regime, o.a[1], o.a[2]); break;
                case 1: setp = regime == 0 ? 64 : regime == 2 ? value_of(2, 1023, 0) : 1e6; break;
                case 2: setp = regime == 0 ? -64 : regime == 2 ? -value_of(2, 1023, 0) : -1e6; break;
                default: setp = setp + value_of(regime, o.a[1], o.a[2]) / 16; break;
                }
                if (regime == 0) { setp = std::floor(setp * 8) / 8; if (setp > 64) setp = 64; if (setp < -64) setp = -64; }
                else if (regime == 1 && !(std::fabs(setp) <= 1e6)) setp = setp > 0 ? 1e6 : -1e6;
                else if (regime == 2 && !std::isfinite((double)(R)setp)) setp = value_of(2, o.a[1], o.a[2]);
                setp = toR(setp);
                break;
            }
            case P_RETUNE:
            {
                kp = value_of(regime, o.a[0], o.a[3]); ki = std::fabs(value_of(regime, o.a[1], o.a[3])); kd = value_of(regime, o.a[2], o.a[3]);
                if (ctype == 1 && regime == 0) { kp /= 2; kd /= 8; }
                for (int k = 0; k < 3; ++k) if (U[k].alive)
                {
                    if (ctype == 0) { c.site("a_pid_set_kpid"); a_pid_set_kpid(U[k].pid, kp, ki, kd); }
                    else if (ctype == 1) { c.site("a_pid_fuzzy_set_kpid"); a_pid_fuzzy_set_kpid(U[k].fz, kp, ki, kd); }
                    else { c.site("a_pid_neuro_set_kpid"); a_pid_neuro_set_kpid(U[k].nr, nk, kp, ki, kd); }
                }
                if (U[3].alive) { if (ctype == 0) U[3].pid->set_kpid(kp, ki, kd); else if (ctype == 1) U[3].fz->set_kpid(kp, ki, kd); else U[3].nr->set_kpid(nk, kp, ki, kd); }
                for (int k = 0; k < 4 && c.ok(); ++k) if (U[k].alive) verify_config(U[k], k == 3 ? "C++ member wrapper" : ctype == 0 ? "a_pid_set_kpid" : ctype == 1 ? "a_pid_fuzzy_set_kpid" : "a_pid_neuro_set_kpid");
                pair_valid = false; // the lock-step claim needs constant gains
                c.st.add("fault.operator_retune");
                break;
            }
            case P_MODE:
            {
                mode = (int)(mag64(o.a[0]) % 3); if (ctype == 2 && mode == 1) mode = 2;
                pair_valid = false;
                c.st.add("fault.operator_mode_switch");
                break;
            }
            case P_ZERO:
            {
                // restart at an arbitrary instant: the main controller and two replicas must be indistinguishable from now on
                zero_unit(U[0]);
                if (U[3].alive) { if (ctype == 0) U[3].pid->zero(); else if (ctype == 1) U[3].fz->zero(); else U[3].nr->zero(); }
                for (int k = 1; k < 3; ++k) { free_unit(U[k]); alloc_unit(U[k]); configure(U[k]); }
                if (ctype == 2) { a_pid_neuro_set_wpid(U[1].nr, U[0].nr->wp, U[0].nr->wi, U[0].nr->wd); a_pid_neuro_set_wpid(U[2].nr, U[0].nr->wp, U[0].nr->wi, U[0].nr->wd); }
                junk_state(U[1], 3.25 + (double)(mag64(o.a[0]) % 97)); zero_unit(U[1]); // junk in every state field, then zero
                zero_unit(U[2]);                                                           // documented init path on a zero-filled object
                pair_valid = false;
                c.st.add("fault.restart_zero");
                break;
            }
            case P_SENSOR_FAULT:
                fault_kind = 1 + (int)(mag64(o.a[0]) % 5); fault_left = 1 + (int)(mag64(o.a[1]) % 12);
                fault_val = regime == 0 ? (mag64(o.a[2]) & 1 ? 64.0 : -64.0) * (fault_kind == 3 ? 1 : 0.5) : value_of(regime, o.a[2], o.a[3]);
                if (regime == 1 && std::fabs(fault_val) > 1e6) fault_val = 1e6;
                fault_val = toR(fault_val);
                break;
            case P_WPID:
                if (ctype == 2)
                {
                    wp = value_of(regime, o.a[0], 24); wi = value_of(regime, o.a[1], 24); wd = value_of(regime, o.a[2], 24);
                    if ((mag64(o.a[3]) % 8) == 0) { wp = wi = wd = 0; c.st.add("probe.neuron_all_weights_zero"); }
                    for (int k = 0; k < 3; ++k) if (U[k].alive) { c.site("a_pid_neuro_set_wpid"); a_pid_neuro_set_wpid(U[k].nr, wp, wi, wd); verify_weights(U[k], "a_pid_neuro_set_wpid"); }
                    if (U[3].alive) U[3].nr->set_wpid(wp, wi, wd);
                }
                break;
            case P_OPR:
                if (ctype == 1) { opr = (unsigned)(mag64(o.a[0]) % 7); for (int k = 0; k < 3; ++k) if (U[k].alive) { c.site("a_pid_fuzzy_set_opr"); a_pid_fuzzy_set_opr(U[k].fz, opr); } if (U[3].alive) U[3].fz->set_opr(opr); }
                break;
            default: break;
            }
            if (uint64_t bad = SA.check_guards()) c.fail("guard-damaged", step_name(), "bytes next to block #%llu were overwritten", (unsigned long long)bad);
        }
    }
};

// ================================================================================================ C16: transfer function
struct TfSim
{
    Ctx &c;
    explicit TfSim(Ctx &c_) : c(c_) {}
    struct F { a_tf tf; R *in = nullptr, *out = nullptr; };
    unsigned nn = 1, dn = 0;
    R *num = nullptr, *den = nullptr;
    F M, Y, L, D, MM; // main, second input, linear combination, delayed, and one driven through the C++ members
    int la = 1, lb = 1; unsigned delay = 1;
    std::deque<double> dq;
    // reference state: explicit delay lines (newest first), exactly what the documented difference equation needs
    std::vector<long double> xs, ys, xs2, ys2;
    bool exact = true, shift_valid = true, overflowed = false;
    std::vector<long double> outM; // reference outputs of the main filter since the last point at which the delayed replica was in step

    bool null_for_order0 = false; // an order-0 side is given a NULL history pointer (there is nothing to store)
    void mk(F &f)
    {
        f.in = (nn == 0 && null_for_order0) ? nullptr : (R *)SA.halloc(nn * sizeof(R));
        f.out = (dn == 0 && null_for_order0) ? nullptr : (R *)SA.halloc(dn * sizeof(R));
        for (unsigned i = 0; i < nn; ++i) f.in[i] = 777.5;
        for (unsigned i = 0; i < dn; ++i) f.out[i] = -333.25; // init must clear them
        c.site("a_tf_init");
        a_tf_init(&f.tf, nn, num, f.in, dn, den, f.out);
    }
    long double ref_step(std::vector<long double> &X, std::vector<long double> &Yh, long double x)
    {
        if (nn) { X.insert(X.begin(), x); X.resize(nn); }
        long double yv = 0;
        for (unsigned i = 0; i < nn; ++i) yv += (long double)num[i] * X[i];
        for (unsigned i = 0; i < dn; ++i) yv -= (long double)den[i] * Yh[i];
        if (dn) { Yh.insert(Yh.begin(), yv); Yh.resize(dn); }
        return yv;
    }
    // exact range: strict equality with the full-history reference; outside it only the main filter is checked,
    // one step at a time from the library's own delay lines (robust against any amplification of rounding errors)
    bool cmp(double got, long double want, char const *cls, char const *what)
    {
        if (!exact) return true;
        if ((long double)got != want) return c.fail(cls, "a_tf_iter", "%s: output %.17g, reference %.17Lg (exact integer regime)", what, got, want);
        return true;
    }
    // `unit` scales every sample: 1, or the smallest subnormal of a_real - small integer multiples of it are exact in the
    // subnormal range too, so the whole exact regime also runs where a flush-to-zero or a lost gradual underflow would show
    double unit = 1.0;
    bool feed(double x, double x2)
    {
        x *= unit; x2 *= unit;
        // one-step expectation from the delay lines as they are now
        long double w1 = nn ? (long double)num[0] * x : 0, sc = fabsl(w1);
        for (unsigned i = 1; i < nn; ++i) { long double t = (long double)num[i] * M.in[i - 1]; w1 += t; sc += fabsl(t); }
        for (unsigned i = 0; i < dn; ++i) { long double t = (long double)den[i] * M.out[i]; w1 -= t; sc += fabsl(t); }
        c.site("a_tf_iter");
        double const ym = a_tf_iter(&M.tf, x);
        double const yy = a_tf_iter(&Y.tf, x2);
        double const yl = a_tf_iter(&L.tf, la * x + lb * x2);
        dq.push_back(x);
        double xd = 0; if (dq.size() > delay) { xd = dq.front(); dq.pop_front(); }
        double const yd = a_tf_iter(&D.tf, xd);
        double const ymm = MM.tf(x); // a_tf::operator()
        // an unstable filter eventually leaves the range of R; from there on nothing is claimed ("magnitudes small enough that nothing overflows")
        if (overflowed || !std::isfinite(ym) || std::fabs(ym) > (R_IS_DOUBLE ? 1e290 : 1e30) || !std::isfinite(yy) || !std::isfinite(yl) || !std::isfinite(yd)) { if (!overflowed) c.st.add("probe.tf_left_representable_range"); overflowed = true; ++c.steps; return true; }
        if (bits_of(ymm) != bits_of(ym)) return c.fail("cxx-wrapper-disagrees", "a_tf_iter", "a_tf::operator() gives %.17g, a_tf_iter %.17g on the same history", ymm, ym);
        ++c.steps;
        xs.resize(nn, 0); xs2.resize(nn, 0); ys.resize(dn, 0); ys2.resize(dn, 0);
        long double const rm = ref_step(xs, ys, x), ry = ref_step(xs2, ys2, x2);
        if (exact && (fabsl(rm) >= ldexpl(1, MANT - 8) * unit || fabsl(ry) >= ldexpl(1, MANT - 8) * unit || !std::isfinite((double)rm))) { exact = false; c.st.add("probe.tf_left_exact_range"); }
        if (!(fabsl((long double)ym - w1) <= sc * ldexpl(1, -(MANT - 13)) + 2 * (long double)(R_IS_DOUBLE ? DBL_TRUE_MIN : FLT_TRUE_MIN) || !std::isfinite((double)w1) || fabsl(w1) > (R_IS_DOUBLE ? 1e300L : 1e37L))) return c.fail("difference-equation-violated", "a_tf_iter", "output %.17g, sum over the delay lines gives %.17Lg", ym, w1);
        if (nn && M.in[0] != x) return c.fail("difference-equation-violated", "a_tf_iter", "newest input not at the front of the input delay line");
        if (dn && M.out[0] != ym) return c.fail("difference-equation-violated", "a_tf_iter", "newest output not at the front of the output delay line");
        if (!cmp(ym, rm, "difference-equation-violated", "main filter")) return false;
        if (!cmp(yy, ry, "difference-equation-violated", "second filter")) return false;
        if (!cmp(yl, la * rm + lb * ry, "not-linear", "filter fed a*x+b*y vs a*F(x)+b*F(y)")) return false;
        outM.push_back(rm);
        size_t const k = outM.size() - 1;
        long double const wantd = k >= delay ? outM[k - delay] : 0;
        if (shift_valid && !cmp(yd, wantd, "not-time-invariant", "filter fed the input delayed by d samples")) return false;
        if (M.tf.num_n != nn || M.tf.den_n != dn) return c.fail("difference-equation-violated", "a_tf_init", "the filter object reports orders %u/%u, configured %u/%u", M.tf.num_n, M.tf.den_n, nn, dn);
        if (exact) c.st.add("probe.tf_exact_steps");
        c.obs(bits_of(ym));
        { int e1 = 0; std::frexp(ym, &e1); c.st.state(fnv_mix(fnv_mix(fnv_mix(FNV0, nn * 16 + dn), (uint64_t)(e1 + 2000) * 2 + (ym > 0)), (uint64_t)exact * 64 + (outM.size() > 63 ? 63 : outM.size()))); }
        return true;
    }
    void reset_all()
    {
        c.site("a_tf_zero");
        a_tf_zero(&M.tf); a_tf_zero(&Y.tf); a_tf_zero(&L.tf); a_tf_zero(&D.tf); MM.tf.zero();
        dq.clear(); xs.assign(nn, 0); ys.assign(dn, 0); xs2.assign(nn, 0); ys2.assign(dn, 0); outM.clear(); exact = true; shift_valid = true; overflowed = false;
        c.st.add("fault.reset_zero");
    }
    bool big = false;
    // feedback coefficients: small integers; for long delay lines mostly zero (a dense feedback of that length leaves every
    // representable range within a few steps) with the oldest tap always live
    R den_coef(uint64_t cs, unsigned i, unsigned n) const
    {
        uint64_t const h = splitmix64(cs + 100 + i);
        if (!big || n <= 8) return (R)((int64_t)(h % 5) - 2);
        if (i + 1 == n) return (R)((h & 1) ? 1 : -1);
        return (h % 16) ? (R)0 : (R)((h >> 8 & 1) ? 1 : -1);
    }
    void exec(Plan const &p)
    {
        SA.reset();
        big = p.knob("bigorder", 0) != 0; // one transfer-function plan in ten: orders up to 160 (long delay lines), sparse feedback
        unsigned const lim = big ? 161 : 9;
        nn = (unsigned)(mag64(p.knob("num_n", 1)) % lim); dn = (unsigned)(mag64(p.knob("den_n", 0)) % lim);
        if (big && (nn > 32 || dn > 32)) c.st.add("probe.tf_order_above_32");
        unit = p.knob("tiny", 0) ? (R_IS_DOUBLE ? DBL_TRUE_MIN : (double)FLT_TRUE_MIN) : 1.0;
        if (unit != 1.0) c.st.add("probe.tf_subnormal_samples");
        la = (int)(p.knob("la", 1) % 5); lb = (int)(p.knob("lb", 1) % 5); delay = (unsigned)(mag64(p.knob("delay", 1)) % 6);
        uint64_t const cs = (uint64_t)p.knob("coefseed", 1);
        num = (R *)SA.halloc(nn * sizeof(R)); den = (R *)SA.halloc(dn * sizeof(R));
        for (unsigned i = 0; i < nn; ++i) num[i] = (R)((int64_t)(splitmix64(cs + i) % 17) - 8);
        for (unsigned i = 0; i < dn; ++i) den[i] = den_coef(cs, i, dn);
        if (nn == 0) c.st.add("probe.tf_numerator_order_zero");
        if (dn == 0) c.st.add("probe.tf_denominator_order_zero");
        null_for_order0 = p.knob("null0", 0) != 0;
        if (null_for_order0 && (nn == 0 || dn == 0)) c.st.add("probe.tf_null_history_for_order_0");
        // the objects are NOT zero-initialised by the caller: every field must be set by init
        for (F *f : {&M, &Y, &L, &D, &MM}) memset(&f->tf, 0x5A, sizeof f->tf);
        mk(M); mk(Y); mk(L); mk(D);
        MM.in = (nn == 0 && null_for_order0) ? nullptr : (R *)SA.halloc(nn * sizeof(R)); MM.out = (dn == 0 && null_for_order0) ? nullptr : (R *)SA.halloc(dn * sizeof(R));
        for (unsigned i = 0; i < nn; ++i) MM.in[i] = 1.5;
        for (unsigned i = 0; i < dn; ++i) MM.out[i] = -2.5;
        if (p.knob("member_init", 0)) MM.tf.init(nn, num, MM.in, dn, den, MM.out); // a_tf::init
        else { MM.tf.set_num(nn, num, MM.in); MM.tf.set_den(dn, den, MM.out); } // the two-call form
        for (size_t i = 0; i < p.ops.size() && c.ok(); ++i)
        {
            Op const &o = p.ops[i];
            c.opi = (int)i;
            c.st.add(std::string("op.tf.") + CTL_OP_NAMES[o.kind]);
            c.logf("op %zu %s a=%lld,%lld\n", i, CTL_OP_NAMES[o.kind], (long long)o.a[0], (long long)o.a[1]);
            switch (o.kind)
            {
            case F_INPUT: feed((double)((int64_t)(mag64(o.a[0]) % 129) - 64), (double)((int64_t)(mag64(o.a[1]) % 129) - 64)); break;
            case F_INPUTS: { size_t n = 1 + (size_t)(mag64(o.a[2]) % (big ? 400 : 24)); for (size_t k = 0; k < n && c.ok(); ++k) feed((double)((int64_t)((mag64(o.a[0]) + k * 31) % 129) - 64), (double)((int64_t)((mag64(o.a[1]) + k * 17) % 129) - 64)); break; }
            case F_ZERO: reset_all(); break;
            case F_QUIET: { size_t n = 1 + (size_t)(mag64(o.a[1]) % 16); double cst = (double)((int64_t)(mag64(o.a[0]) % 9) - 4); for (size_t k = 0; k < n && c.ok(); ++k) feed(cst, 0); break; }
            case F_SETNUM: case F_SETDEN:
            { // re-point the numerator (or denominator) of a running filter: that side's delay line restarts from zero, the other side keeps its history
                bool const isnum = o.kind == F_SETNUM;
                unsigned const newn = (unsigned)(mag64(o.a[0]) % (big ? 161 : 9));
                uint64_t const cs2 = mag64(o.a[1]);
                R *co = (R *)SA.halloc(newn * sizeof(R));
                for (unsigned i = 0; i < newn; ++i) co[i] = isnum ? (R)((int64_t)(splitmix64(cs2 + i) % 17) - 8) : den_coef(cs2, i, newn);
                F *all[5] = {&M, &Y, &L, &D, &MM};
                for (F *f : all)
                {
                    R *line = (newn == 0 && null_for_order0) ? nullptr : (R *)SA.halloc(newn * sizeof(R));
                    for (unsigned i = 0; i < newn; ++i) line[i] = 55.5; // must be cleared by the call
                    if (isnum) { c.site("a_tf_set_num"); if (f == &MM) f->tf.set_num(newn, co, line); else a_tf_set_num(&f->tf, newn, co, line); if (f->in) SA.hfree(f->in); f->in = line; }
                    else { c.site("a_tf_set_den"); if (f == &MM) f->tf.set_den(newn, co, line); else a_tf_set_den(&f->tf, newn, co, line); if (f->out) SA.hfree(f->out); f->out = line; }
                }
                if (isnum) { SA.hfree(num); num = co; nn = newn; xs.assign(nn, 0); xs2.assign(nn, 0); dq.clear(); }
                else { SA.hfree(den); den = co; dn = newn; ys.assign(dn, 0); ys2.assign(dn, 0); }
                shift_valid = false; // the delayed replica is no longer a pure time shift of the main one until the next full reset
                c.st.add(isnum ? "fault.numerator_replaced_mid_run" : "fault.denominator_replaced_mid_run");
                break;
            }
            default: break;
            }
            if (uint64_t bad = SA.check_guards()) c.fail("guard-damaged", "a_tf_iter", "bytes next to block #%llu were overwritten", (unsigned long long)bad);
        }
    }
};

// ================================================================================================ C16: RC filters
struct RcSim
{
    Ctx &c;
    explicit RcSim(Ctx &c_) : c(c_) {}
    a_lpf *lp = nullptr; a_hpf *hp = nullptr;
    a_lpf lp2; a_hpf hp2; // driven through the C++ members of the headers
    int regime = 0; double alpha = 0.5;
    double lo = 0, hi = 0;       // hull of {0} U inputs so far (low-pass)
    long double rl = 0, rh = 0, rin = 0; // reference state, exact regime
    size_t since_reset = 0;

    bool feed(double x)
    {
        // regime 2 (magnitudes up to 3/4 of the largest finite value, either sign): only the low-pass is driven, because
        // the high-pass forms prev + x - prev_x and may overflow legitimately there, while a convex combination may not
        bool const ext = regime == 2;
        double const pl = lp->output, ph = hp->output, pin = ext ? x : hp->input;
        c.site("a_lpf_iter"); double const ol = a_lpf_iter(lp, x);
        c.site("a_hpf_iter"); double const oh = ext ? 0 : a_hpf_iter(hp, x);
        double const ol2 = lp2(x), oh2 = ext ? 0 : hp2(x);
        if (ext) { hp->input = x; c.st.add("probe.lowpass_extreme_magnitudes"); }
        if (!std::isfinite(ol) || !std::isfinite(oh)) return c.fail("state-not-finite", "a_lpf_iter", "filter output %.17g / %.17g not finite after finite input %.17g (previous outputs %.17g / %.17g)", ol, oh, x, pl, ph);
        // the members re-state the formula, so a last-bit difference between the two spellings is legitimate: compare with a tolerance
        { double const tl2 = 8 * ulp_of(std::max(std::max(std::fabs(pl), std::fabs(x)), std::fabs(ol))), th2 = 8 * ulp_of(std::max(std::max(std::fabs(ph), std::fabs(x)), std::max(std::fabs(pin), std::fabs(oh))));
          if (!(std::fabs(ol2 - ol) <= tl2) || !(std::fabs(oh2 - oh) <= th2)) return c.fail("cxx-wrapper-disagrees", "a_lpf_iter", "operator() of the C++ filter objects gives %.17g / %.17g, the C API %.17g / %.17g", ol2, oh2, ol, oh);
          lp2.output = ol; hp2.output = oh; hp2.input = hp->input; } // keep the replica in step so that differences do not accumulate
        ++c.steps; ++since_reset;
        if (x < lo) lo = x; if (x > hi) hi = x;
        // one-step difference equations from the filters' own previous state
        long double const wl = (1 - (long double)alpha) * pl + (long double)alpha * x;
        long double const wh = (long double)alpha * ((long double)ph + x - pin);
        if (regime == 0 && since_reset <= (R_IS_DOUBLE ? 16u : 7u))
        {
            rl = (1 - (long double)alpha) * rl + (long double)alpha * x; rh = (long double)alpha * (rh + x - rin); rin = x;
            if ((long double)ol != rl) return c.fail("difference-equation-violated", "a_lpf_iter", "low-pass output %.17g, recurrence from zero state gives %.17Lg (exact regime)", ol, rl);
            if ((long double)oh != rh) return c.fail("difference-equation-violated", "a_hpf_iter", "high-pass output %.17g, recurrence from zero state gives %.17Lg (exact regime)", oh, rh);
        }
        long double const tl = 8 * (long double)ulp_of(std::max(std::fabs(pl), std::fabs(x))), th = 8 * (long double)ulp_of(std::max(std::max(std::fabs(ph), std::fabs(x)), std::fabs(pin)));
        if (fabsl(ol - wl) > tl) return c.fail("difference-equation-violated", "a_lpf_iter", "low-pass output %.17g, (1-a)*prev + a*x = %.17Lg", ol, wl);
        if (!ext && fabsl(oh - wh) > th) return c.fail("difference-equation-violated", "a_hpf_iter", "high-pass output %.17g, a*(prev + x - prev_x) = %.17Lg", oh, wh);
        if (hp->input != x) return c.fail("difference-equation-violated", "a_hpf_iter", "previous-input cache not updated");
        // convex combination stays within the range of the values fed so far (and the initial zero)
        // rounding: 1 - alpha is itself rounded, so the two weights may add up to 1 + d with |d| <= one unit roundoff; held at
        // a constant input x for long enough the recurrence then settles at x * alpha / (alpha - d), i.e. up to about
        // (unit roundoff) / alpha beyond the hull in relative terms, on top of the few roundings of a single step
        double const slack = (4 + (alpha > 0 ? 8 / alpha : 0)) * ulp_of(std::max(std::fabs(lo), std::fabs(hi)));
        if (ol < lo - slack || ol > hi + slack) return c.fail("lowpass-left-input-range", "a_lpf_iter", "output %.17g outside [%.17g, %.17g] of the values fed so far", ol, lo, hi);
        c.obs(bits_of(ol)); c.obs(bits_of(oh));
        { int e1 = 0, e2 = 0; std::frexp(ol, &e1); std::frexp(oh, &e2); c.st.state(fnv_mix(fnv_mix(fnv_mix(FNV0, (uint64_t)(int64_t)(alpha * 16)), (uint64_t)(e1 + 2000) * 4 + (ol > 0) * 2 + (oh > 0)), (uint64_t)(e2 + 2000) * 32 + (since_reset > 31 ? 31 : since_reset))); }
        return true;
    }
    void reinit(double a)
    {
        a = toR(a);
        alpha = a;
        c.site("a_lpf_init"); a_lpf_init(lp, a);
        c.site("a_hpf_init"); a_hpf_init(hp, a);
        lp2.alpha = a; lp2.output = 123; lp2.zero(); hp2.alpha = a; hp2.output = 7; hp2.input = -9; hp2.zero();
        lo = hi = 0; rl = rh = rin = 0; since_reset = 0;
    }
    void exec(Plan const &p)
    {
        SA.reset();
        regime = (int)p.knob("regime", 0) % 3;
        lp = (a_lpf *)SA.halloc(sizeof(a_lpf)); hp = (a_hpf *)SA.halloc(sizeof(a_hpf));
        memset(lp, 0x7f, sizeof *lp); memset(hp, 0x7f, sizeof *hp);
        double a0 = regime == 0 ? (double)(mag64(p.knob("alpha", 2)) % 5) / 4.0 : (double)(mag64(p.knob("alpha", 2)) % 1001) / 1000.0;
        reinit(a0);
        for (size_t i = 0; i < p.ops.size() && c.ok(); ++i)
        {
            Op const &o = p.ops[i];
            c.opi = (int)i;
            c.st.add(std::string("op.rc.") + CTL_OP_NAMES[o.kind]);
            c.logf("op %zu %s a=%lld,%lld,%lld [alpha=%g lp=%g hp=%g]\n", i, CTL_OP_NAMES[o.kind], (long long)o.a[0], (long long)o.a[1], (long long)o.a[2], alpha, lp->output, hp->output);
            double const rmax = R_IS_DOUBLE ? DBL_MAX : (double)FLT_MAX;
            auto inval = [&](int64_t m, int64_t e) { return toR(regime == 0 ? (double)((int64_t)(mag64(m) % 129) - 64) : regime == 2 ? ((mag64(e) & 1) ? -0.75 : 0.75) * rmax * ((mag64(e) & 6) ? (double)(mag64(m) % 1000 + 1) / 1000.0 : 1.0) : value_of(1, m, e)); };
            switch (o.kind)
            {
            case F_INPUT: feed(inval(o.a[0], o.a[1])); break;
            case F_INPUTS: { size_t n = 1 + (size_t)(mag64(o.a[2]) % 24); for (size_t k = 0; k < n && c.ok(); ++k) feed(inval(o.a[0] + (int64_t)k * 29, o.a[1])); break; }
            case F_ZERO:
                c.site("a_lpf_zero"); a_lpf_zero(lp); c.site("a_hpf_zero"); a_hpf_zero(hp);
                lp2.zero(); hp2.zero();
                if (lp->output != 0 || hp->output != 0 || hp->input != 0 || lp->alpha != alpha || hp->alpha != alpha) { c.fail("zero-is-not-a-restart", "a_lpf_zero", "zeroing did not restore the initial state or touched the coefficient"); break; }
                lo = hi = 0; rl = rh = rin = 0; since_reset = 0;
                c.st.add("fault.reset_zero");
                break;
            case F_QUIET:
            { // disturbances stop: constant input; bounded settling
                double const cst = inval(o.a[0], o.a[1]);
                if (!feed(cst)) break; // first quiet sample (the high-pass still sees the step)
                double const tol = 1e-3;
                double const dl0 = std::fabs(lp->output - cst), h0 = std::fabs(hp->output);
                size_t K;
                double const slowest = std::max(1 - alpha, alpha);
                if (alpha <= 0 || alpha >= 1) K = 2;
                else
                {
                    double const kk = slowest < 1 ? std::ceil(std::log(tol) / std::log(slowest)) + 1 : 1e30;
                    if (!(kk <= 20000)) { c.st.add("probe.settling_bound_too_long_skipped"); break; }
                    K = (size_t)kk;
                }
                for (size_t k = 0; k < K && c.ok(); ++k) feed(cst);
                if (!c.ok()) break;
                double const scale = std::max(std::max(std::fabs(cst), dl0), h0);
                double const rate = std::min(alpha, 1 - alpha);
                double const slack = (64 + (rate > 0 ? 8 / rate : 0)) * ulp_of(scale) + (R_IS_DOUBLE ? DBL_MIN : (double)FLT_MIN); // rounding errors of a contraction accumulate to at most ulp/(1-rate)
                if (!std::isfinite(dl0)) { c.st.add("probe.settling_distance_not_representable_skipped"); break; }
                if (alpha > 0 && std::fabs(lp->output - cst) > tol * dl0 + slack) c.fail("lowpass-did-not-settle", "a_lpf_iter", "%zu samples after the input became constant %.17g the output is still %.17g away (started %.17g away)", K, cst, std::fabs(lp->output - cst), dl0);
                else if (regime != 2 && alpha < 1 && std::fabs(hp->output) > tol * h0 + slack) c.fail("highpass-did-not-decay", "a_hpf_iter", "%zu samples after the input became constant the output is still %.17g (was %.17g)", K, hp->output, h0);
                c.st.add("probe.settling_checked");
                break;
            }
            case F_GEN:
            {
                // coefficient generators: fc, ts log-uniform over 24 decades
                // fc, ts log-uniform over 24 decades; every third call over (almost) the whole positive double range
                bool const wide = (mag64(o.a[3]) % 3) == 0;
                double const wexp = R_IS_DOUBLE ? 300.0 : 37.0; // decimal exponent range of R
                double const fc = toR(wide ? std::pow(10.0, ((double)((int64_t)(mag64(o.a[0]) % 6001) - 3000) / 3000.0) * wexp) : std::pow(10.0, (double)((int64_t)(mag64(o.a[0]) % 2401) - 1200) / 100.0));
                double const ts = toR(wide ? std::pow(10.0, ((double)((int64_t)(mag64(o.a[1]) % 6001) - 3000) / 3000.0) * wexp) : std::pow(10.0, (double)((int64_t)(mag64(o.a[1]) % 2401) - 1200) / 100.0));
                if (wide) c.st.add("probe.gen_extreme_arguments");
                c.site("a_lpf_gen"); double const al = a_lpf_gen(fc, ts);
                c.site("a_hpf_gen"); double const ah = a_hpf_gen(fc, ts);
                auto close = [](double a, double b) { return std::fabs(a - b) <= 4 * ulp_of(std::max(std::fabs(a), std::fabs(b))) || (a != a && b != b); };
                { a_lpf tl; a_hpf th; tl.gen(fc, ts); th.gen(fc, ts); if (!close(tl.alpha, al) || !close(th.alpha, ah)) { c.fail("cxx-wrapper-disagrees", "a_lpf_gen", "gen() members and a_lpf_gen/a_hpf_gen disagree beyond rounding for fc=%g ts=%g (%.17g vs %.17g, %.17g vs %.17g)", fc, ts, tl.alpha, al, th.alpha, ah); break; } }
                { // initialiser macros of the headers
                    a_lpf ml = A_LPF_2(fc, ts); a_hpf mh = A_HPF_2(fc, ts); a_lpf m1 = A_LPF_1(al); a_hpf h1 = A_HPF_1(ah);
                    // the same through expression arguments (sums, differences, conditionals)
                    double const t1 = toR(ts * 3), t0 = toR(ts * 2), f1 = toR(fc / 2);
                    bool const pick = (mag64(o.a[2]) & 1) != 0;
                    double const e1 = A_LPF_GEN(f1 + f1, t1 - t0), e2 = A_HPF_GEN(f1 + f1, t1 - t0), e3 = A_LPF_GEN(pick ? fc : fc, pick ? ts : ts), e4 = A_HPF_GEN(pick ? fc : fc, pick ? ts : ts);
                    double const x1 = a_lpf_gen(f1 + f1, t1 - t0), x2 = a_hpf_gen(f1 + f1, t1 - t0);
                    if (!close(e1, x1) || !close(e2, x2) || !close(e3, al) || !close(e4, ah)) { c.fail("cxx-wrapper-disagrees", "A_LPF_GEN", "the generator macros with expression arguments disagree with the functions (%.17g vs %.17g, %.17g vs %.17g)", e1, x1, e2, x2); break; }
                    if (!close(ml.alpha, al) || !close(mh.alpha, ah) || !close(A_LPF_GEN(fc, ts), al) || !close(A_HPF_GEN(fc, ts), ah) || ml.output != 0 || mh.output != 0 || mh.input != 0 || !close(m1.alpha, al) || m1.output != 0 || !close(h1.alpha, ah) || h1.output != 0 || h1.input != 0)
                    { c.fail("cxx-wrapper-disagrees", "A_LPF_GEN", "the initialiser macros A_LPF_* / A_HPF_* disagree with a_lpf_gen / a_hpf_gen / a zeroed state for fc=%g ts=%g", fc, ts); break; }
                }
                if (!(al >= 0 && al <= 1)) { c.fail("coefficient-outside-unit-interval", "a_lpf_gen", "a_lpf_gen(%g, %g) = %.17g", fc, ts, al); break; }
                if (!(ah >= 0 && ah <= 1)) { c.fail("coefficient-outside-unit-interval", "a_hpf_gen", "a_hpf_gen(%g, %g) = %.17g", fc, ts, ah); break; }
                double const prod = fc * ts; // computed in double from the R-rounded arguments
                if (prod >= 1e-12 && prod <= 1e12)
                {
                    if (R_IS_DOUBLE ? !(al > 0 && al < 1) : (prod >= 1e-5 && prod <= 1e5 && !(al > 0 && al < 1))) { c.fail("coefficient-not-strictly-inside", "a_lpf_gen", "fc*ts = %g but a_lpf_gen = %.17g", prod, al); break; }
                    if (R_IS_DOUBLE ? !(ah > 0 && ah < 1) : (prod >= 1e-5 && prod <= 1e5 && !(ah > 0 && ah < 1))) { c.fail("coefficient-not-strictly-inside", "a_hpf_gen", "fc*ts = %g but a_hpf_gen = %.17g", prod, ah); break; }
                    c.st.add("probe.gen_strict_interior_checked");
                }
                // the two are complementary descriptions of the same RC constant
                if (regime >= 1) reinit((mag64(o.a[2]) & 1) ? al : ah);
                break;
            }
            default: break;
            }
        }
    }
};

struct CtlEngine : Engine
{
    char const *name() const override { return "ctl"; }
    std::vector<std::string> properties() const override { return {"C12", "C16"}; }
    char const *op_name(int kind) const override { return kind >= 0 && kind < CTL__COUNT ? CTL_OP_NAMES[kind] : "?"; }
    int op_kind(std::string const &n) const override { for (int k = 0; k < CTL__COUNT; ++k) if (n == CTL_OP_NAMES[k]) return k; return -1; }

    Plan generate(std::string const &prop, uint64_t seed, int tier) override
    {
        (void)tier;
        Rng r(seed);
        Plan p; p.engine = "ctl"; p.prop = prop; p.seed = seed;
#ifdef SIM_ALT_CONFIG
        p.set("build_alt", 1); // this plan belongs to the build in which a_real is float (-DA_SIZE_REAL=4)
#endif
        if (prop == "C12")
        {
            p.set("sys", 0);
            static const int CT[] = {0, 0, 1, 1, 2};
            p.set("ctype", r.pick(CT)); p.set("regime", r.chance(1, 2)); if (r.chance(1, 12)) p.set("regime", 2); p.set("plant", (int64_t)r.below(3)); p.set("mode", (int64_t)r.below(3));
            p.set("pair", r.chance(1, 2));
            p.set("order", (int64_t)r.range(1, 7)); p.set("family", (int64_t)r.below(8)); p.set("opr", (int64_t)r.below(7)); p.set("tabseed", (int64_t)r.below(1u << 30));
            p.set("nulltab", r.chance(1, 3) ? (int64_t)r.below(8) : 0);
            for (char const *k : {"kp", "ki", "kd", "summax", "summin", "outmax", "outmin", "nk", "wp", "wi", "wd"}) p.set(k, (int64_t)r.below(2047));
            // small gains are the common case; keep ki small so that integration lasts a while
            if (r.chance(2, 3)) p.set("ki", 512 + (int64_t)r.below(9));
            if (r.chance(1, 2)) p.set("kp", 512 + (int64_t)r.below(33) - 16);
            if (r.chance(1, 4)) { p.set("outmax", 512 + 512); p.set("outmin", 0); p.set("summax", 1024); p.set("summin", 0); } // wide limits: long unsaturated stretches
            p.set("kp_e", (int64_t)r.below(45)); p.set("ki_e", (int64_t)r.below(45)); p.set("kd_e", (int64_t)r.below(45)); p.set("lim_e", 10 + (int64_t)r.below(35));
            bool en[9]; for (int k = 0; k < 9; ++k) en[k] = r.chance(1, 2);
            en[P_STEP] = true;
            if (p.knob("pair") && p.knob("ctype") == 0 && p.knob("regime") == 0 && r.chance(3, 4))
            { // a configuration in which the positional / incremental pair can run for a long time: small gains, wide limits
                p.set("kp", 512 + (int64_t)r.below(17) - 8); p.set("ki", 512 + (int64_t)r.below(3)); p.set("kd", 512 + (int64_t)r.below(9) - 4);
                p.set("outmax", 1024); p.set("outmin", 0); p.set("summax", 1024); p.set("summin", 0); p.set("mode", 1); p.set("plant", (int64_t)r.below(2));
                if (r.chance(2, 3)) en[P_RETUNE] = en[P_MODE] = en[P_ZERO] = false;
            }
            std::vector<int> kinds;
            for (int k = 0; k <= P_OPR; ++k) if (en[k]) { kinds.push_back(k); if (k <= P_STEPS) { kinds.push_back(k); kinds.push_back(k); kinds.push_back(k); } if (k == P_SETPOINT) kinds.push_back(k); }
            int64_t const nops = r.geolen(3, 120);
            for (int64_t i = 0; i < nops; ++i)
            {
                Op o; o.kind = kinds[r.below(kinds.size())];
                for (int k = 0; k < 4; ++k) o.a[k] = (int64_t)r.below(4096);
                p.ops.push_back(o);
            }
        }
        else
        {
            bool const tf = r.chance(1, 2);
            p.set("sys", tf ? 1 : 2);
            if (tf)
            {
                p.set("num_n", (int64_t)r.below(9)); p.set("den_n", (int64_t)r.below(9)); p.set("coefseed", (int64_t)r.below(1u << 30));
                p.set("la", (int64_t)r.range(-4, 4)); p.set("lb", (int64_t)r.range(-4, 4)); p.set("delay", (int64_t)r.below(6));
                p.set("tiny", r.chance(1, 8));
                p.set("member_init", r.chance(1, 2)); p.set("null0", r.chance(1, 2));
                if (r.chance(1, 10)) { p.set("bigorder", 1); p.set("num_n", (int64_t)r.below(161)); p.set("den_n", (int64_t)r.below(161)); }
            }
            else { p.set("regime", r.chance(1, 2)); p.set("alpha", (int64_t)r.below(1001)); if (!tf && r.chance(1, 8)) p.set("regime", 2); }
            std::vector<int> kinds = {F_INPUT, F_INPUT, F_INPUT, F_INPUTS, F_INPUTS};
            if (r.chance(1, 2)) kinds.push_back(F_ZERO);
            if (r.chance(1, 2)) kinds.push_back(F_QUIET);
            if (!tf && r.chance(1, 2)) kinds.push_back(F_GEN);
            if (tf && r.chance(1, 3)) { kinds.push_back(F_SETNUM); kinds.push_back(F_SETDEN); }
            int64_t const nops = r.geolen(2, tf ? 24 : 60);
            for (int64_t i = 0; i < nops; ++i)
            {
                Op o; o.kind = kinds[r.below(kinds.size())];
                for (int k = 0; k < 4; ++k) o.a[k] = (int64_t)r.below(100000);
                p.ops.push_back(o);
            }
        }
        return p;
    }
    Result execute(Plan const &p, Stats &st, FILE *log) override
    {
        Ctx c(st, log);
        int const sys = (int)p.knob("sys", 0);
        if (sys == 0) { PidSim s(c); s.exec(p); }
        else if (sys == 1) { TfSim s(c); s.exec(p); }
        else { RcSim s(c); s.exec(p); }
        SA.reset();
        return c.result();
    }
    std::vector<KnobShrink> shrinkable_knobs() const override { return {{"pair", 0}, {"order", 1}, {"num_n", 0}, {"den_n", 0}, {"delay", 0}, {"plant", 0}}; }
    std::vector<std::string> components(std::string const &prop) const override
    {
        if (prop == "C12") return {"REAL: src/pid.c, src/pid_fuzzy.c, src/pid_neuro.c, src/mf.c, src/fuzzy.c, inline include/a/fuzzy.h, libm", "STUB: plant (integrator / first-order lag / free-running feedback), sensor with dropout, stuck-at, spike, sign-flip and quantisation faults, operator (set-point, retune, mode switch, zero)"};
        return {"REAL: src/tf.c, a_real_push_fore in src/math.c, inline include/a/lpf.h and include/a/hpf.h", "STUB: input source, reset operator; delay lines and coefficient arrays live in exact-size guarded blocks"};
    }
    std::string rule(std::string const &prop) const override
    {
        if (prop == "C12") return "items are seeded closed-loop histories (plain / fuzzy / neuron controller; exact dyadic, general floating or - one history in twelve - extreme-magnitude regime in which intermediates overflow and only the output limits are asserted; 3 plant stubs) with sensor faults, set-point jumps, retuning, mode switches and zero at arbitrary samples; every sample checks limits, finiteness, the integrator clamp clause, the documented difference equation (bit-exact in the dyadic regime; for the single-neuron controller the remembered differences, the Hebbian weight update and the normalised output, accepting both the header's and the code's reading of the formula), the empty history after zeroing, the fuzzy gain schedule against an independent evaluation (all 13 membership families, tables that may end early with A_MF_NUL, 7 operators, present or absent rule bases), restart replicas, a replica driven through the C++ member wrappers, and the positional/incremental pair; evaluations = histories; distinct_nontrivial = HyperLogLog estimate of distinct (mode, saturation flags, sign(sum), sign(err), clamp flags, controller type, active sensor fault, floor(output)) states";
        return "items are seeded input histories through the real transfer function (orders 0..8 and, one history in ten, 0..160 with sparse feedback and input runs of up to 400 samples; integer coefficients, one history in eight scaled by the smallest subnormal of a_real, four lock-step replicas: main, second input, linear combination, delayed input) or through the RC filters (dyadic or general alpha), with zero at arbitrary samples, numerator/denominator re-pointed in a running filter, a replica driven through the C++ members and initialiser macros, quiet phases with a settling bound, and coefficient generation over 24 decades (every third call over the whole positive double range); distinct_nontrivial = HyperLogLog estimate of distinct (numerator order, denominator order, binary exponent and sign of the output, exactness flag, samples since reset) states for the transfer function and (alpha in sixteenths, exponents and signs of both outputs, samples since reset) states for the RC filters";
    }
    std::vector<std::string> assumptions(std::string const &prop) const override
    {
        std::vector<std::string> v = {"sampling, not proof: a clean batch is evidence proportional to the reach numbers in this file", "time is the sample index; no wall clock is involved"};
        if (prop == "C12") { v.push_back("ki >= 0, summin <= 0 <= summax, outmin <= outmax, magnitudes bounded (|values| <= 64 in the dyadic regime, <= ~1e9 in the general regime) so that no intermediate overflows - the equations, finiteness of the inner state and restart equivalence are claimed under that bound; beyond it (extreme regime, values up to 2^1020) only output-within-limits is checked, because the unchanged code lets the integrator overflow there"); v.push_back("fuzzy scratch buffer sized for the number of simultaneously active sets (order, or 2 for Ruspini partitions)"); v.push_back("neuron weights are configuration, not state: zero/init does not reset them, replicas copy them"); }
        else v.push_back("transfer-function coefficients and inputs are small integers so that the direct-form reference is exact below 2^50; beyond that a relative tolerance 2^-40 applies");
        return v;
    }
    uint64_t default_runs(std::string const &prop, int tier) const override { return prop == "C12" ? (tier ? 14000000 : 200000) : (tier ? 30000000 : 400000); }
};

Engine *make_engine() { return new CtlEngine(); }

} // namespace sim

int main(int argc, char **argv) { return sim::driver_main(argc, argv); }
