// Batch driver: forked worker pool, death handling, shrinking, replay gate, known findings, evidence.
// (DESIGN.md 3.6, 3.7, 9). Included once by every engine binary.
#pragma once
#include "core.h"
#include <unistd.h>
#include <poll.h>
#include <signal.h>
#include <fcntl.h>
#include <errno.h>
#include <time.h>
#include <sys/mman.h>
#include <sys/wait.h>
#include <sys/stat.h>
#include <sys/time.h>
#include <set>

extern "C" int __llvm_profile_write_file(void) __attribute__((weak)); // present only in the coverage build

namespace sim {

static inline void flush_profile() { if (__llvm_profile_write_file) __llvm_profile_write_file(); }
static Shared g_shared_dummy;
Shared *g_shared = &g_shared_dummy;

// per-item timeout in CPU time of the process (not wall time): a loaded machine must not turn into an alarm
static inline void cpu_alarm(unsigned seconds)
{
    struct itimerval it; memset(&it, 0, sizeof it); it.it_value.tv_sec = seconds;
    setitimer(ITIMER_VIRTUAL, &it, nullptr);
}
static inline double now_s()
{
    struct timespec ts; clock_gettime(CLOCK_MONOTONIC, &ts); // wall time for reporting only; never feeds a run
    return (double)ts.tv_sec + 1e-9 * (double)ts.tv_nsec;
}
static inline std::string read_file(std::string const &path)
{
    std::string s; FILE *f = fopen(path.c_str(), "rb"); if (!f) return s;
    char buf[65536]; size_t n;
    while ((n = fread(buf, 1, sizeof buf, f)) > 0) s.append(buf, n);
    fclose(f); return s;
}
static inline bool write_file(std::string const &path, std::string const &s)
{
    FILE *f = fopen(path.c_str(), "wb"); if (!f) return false;
    fwrite(s.data(), 1, s.size(), f); fclose(f); return true;
}
static inline void mkdirs(std::string const &p)
{
    std::string cur;
    for (size_t i = 0; i < p.size(); ++i)
    {
        cur += p[i];
        if (p[i] == '/' || i + 1 == p.size()) mkdir(cur.c_str(), 0777);
    }
}
static inline std::string sanitize_token(std::string s)
{
    for (auto &ch : s) if (ch == ' ' || ch == '\t' || ch == '\n') ch = '-';
    if (s.empty()) s = "-";
    return s;
}

struct Outcome
{
    bool violated = false, crashed = false;
    std::string cls, site, detail, stderr_text;
    uint64_t hash = 0;
    int op_index = -1;
    uint64_t steps = 0;
};

static inline std::string classify_crash(int status, std::string const &errtext)
{
    size_t p = errtext.find("ERROR: AddressSanitizer: ");
    if (p != std::string::npos)
    {
        p += strlen("ERROR: AddressSanitizer: ");
        size_t e = p;
        while (e < errtext.size() && errtext[e] != ' ' && errtext[e] != '\n') ++e;
        return "asan:" + errtext.substr(p, e - p);
    }
    p = errtext.find("runtime error: ");
    if (p != std::string::npos)
    {
        p += strlen("runtime error: ");
        size_t e = p;
        while (e < errtext.size() && errtext[e] != ':' && errtext[e] != '\n' && e - p < 40) ++e;
        // keep only the leading words up to the first digit, so values do not enter the class
        std::string w = errtext.substr(p, e - p);
        size_t d = 0; while (d < w.size() && !(w[d] >= '0' && w[d] <= '9')) ++d;
        w = w.substr(0, d);
        while (!w.empty() && w.back() == ' ') w.pop_back();
        return "ubsan:" + sanitize_token(w);
    }
    if (WIFSIGNALED(status))
    {
        int sg = WTERMSIG(status);
        if (sg == SIGALRM || sg == SIGVTALRM) return "timeout";
        return "signal:" + std::to_string(sg);
    }
    if (WIFEXITED(status)) return "exit:" + std::to_string(WEXITSTATUS(status));
    return "died";
}

struct Driver
{
    Engine *eng;
    std::string prop, out_dir, evidence_path, known_path, self_path;
    int tier = 0; // 0 quick, 1 thorough
    uint64_t batch_seed = 1, runs = 0;
    int workers = 16;
    uint64_t det_runs = 200; bool det_set = false;
    double max_seconds = 0;
    int item_timeout = 60; bool item_timeout_set = false;

    explicit Driver(Engine *e) : eng(e) {}

    // ------------------------------------------------------------ run one plan in a forked child
    Outcome run_plan_child(Plan const &p, bool want_log = false, std::string *log_out = nullptr)
    {
        Outcome o;
        Shared *sh = (Shared *)mmap(nullptr, sizeof(Shared), PROT_READ | PROT_WRITE, MAP_SHARED | MAP_ANONYMOUS, -1, 0);
        memset(sh, 0, sizeof *sh);
        char errpath[] = "/tmp/simerrXXXXXX"; int efd = mkstemp(errpath);
        char logpath[] = "/tmp/simlogXXXXXX"; int lfd = want_log ? mkstemp(logpath) : -1;
        fflush(stdout); fflush(stderr);
        pid_t pid = fork();
        if (pid == 0)
        {
            g_shared = sh;
            dup2(efd, 2);
            FILE *lg = nullptr;
            if (want_log) { lg = fdopen(lfd, "w"); if (lg) setvbuf(lg, nullptr, _IONBF, 0); }
            cpu_alarm((unsigned)item_timeout);
            Stats st;
            sh->phase = 1;
            Result r = eng->execute(p, st, lg);
            if (lg) fflush(lg);
            sh->violated = r.v.hit; sh->hash = r.hash; sh->steps = r.steps;
            if (r.v.hit)
            {
                strncpy(sh->cls, r.v.cls.c_str(), sizeof sh->cls - 1);
                strncpy(sh->site, r.v.site.c_str(), sizeof sh->site - 1); sh->site[sizeof sh->site - 1] = 0;
                strncpy(sh->detail, r.v.detail.c_str(), sizeof sh->detail - 1);
                sh->op_index = r.v.op_index;
            }
            sh->phase = 2;
            flush_profile();
            _exit(0);
        }
        int status = 0;
        while (waitpid(pid, &status, 0) < 0 && errno == EINTR) {}
        close(efd);
        o.stderr_text = read_file(errpath); unlink(errpath);
        if (want_log) { close(lfd); if (log_out) *log_out = read_file(logpath); unlink(logpath); }
        if (sh->phase == 2 && WIFEXITED(status) && WEXITSTATUS(status) == 0)
        {
            o.violated = sh->violated; o.hash = sh->hash; o.steps = sh->steps;
            if (o.violated) { o.cls = sh->cls; o.site = sh->site; o.detail = sh->detail; o.op_index = sh->op_index; }
        }
        else
        {
            o.violated = true; o.crashed = true;
            o.cls = classify_crash(status, o.stderr_text);
            o.site = sh->site[0] ? sh->site : "-";
            o.op_index = sh->op_index;
            o.hash = 0;
            // first line of the sanitizer report as detail
            size_t p0 = o.stderr_text.find("ERROR:"); if (p0 == std::string::npos) p0 = o.stderr_text.find("runtime error");
            if (p0 != std::string::npos) { size_t e = o.stderr_text.find('\n', p0); o.detail = o.stderr_text.substr(p0, (e == std::string::npos ? o.stderr_text.size() : e) - p0); }
            else o.detail = "process died";
        }
        munmap(sh, sizeof(Shared));
        return o;
    }

    // ------------------------------------------------------------ shrinking
    struct Target { std::string cls, site; };
    int shrink_budget = 600, shrink_used = 0;
    double shrink_deadline = 0; // wall clock; only bounds how far a plan is minimised, never whether it is reported
    bool still_fails(Plan const &p, Target const &t)
    {
        if (shrink_used < shrink_budget && now_s() > shrink_deadline) shrink_used = shrink_budget;
        if (shrink_used >= shrink_budget) return false;
        ++shrink_used;
        Outcome o = run_plan_child(p);
        return o.violated && o.cls == t.cls && o.site == t.site;
    }
    Plan shrink(Plan p, Target const &t)
    {
        shrink_used = 0;
        // a hanging run costs a full item timeout per attempt: minimise those only a little
        shrink_budget = t.cls == "timeout" ? 12 : 600;
        shrink_deadline = now_s() + (tier ? 600 : 120);
        // 1. truncate after the failing op when known
        {
            Outcome o = run_plan_child(p);
            if (o.violated && o.op_index >= 0 && (size_t)o.op_index + 1 < p.ops.size())
            {
                Plan q = p; q.ops.resize((size_t)o.op_index + 1);
                if (still_fails(q, t)) p = q;
            }
        }
        // 2. ddmin over ops
        size_t chunk = p.ops.size() / 2;
        while (chunk >= 1 && !p.ops.empty())
        {
            bool removed_any = false;
            for (size_t start = 0; start < p.ops.size();)
            {
                size_t len = std::min(chunk, p.ops.size() - start);
                Plan q = p; q.ops.erase(q.ops.begin() + (long)start, q.ops.begin() + (long)(start + len));
                if (still_fails(q, t)) { p = q; removed_any = true; }
                else start += len;
                if (shrink_used >= shrink_budget) break;
            }
            if (shrink_used >= shrink_budget) break;
            if (chunk == 1 && !removed_any) break;
            if (!removed_any || chunk > p.ops.size()) chunk = std::min(chunk / 2, p.ops.size() ? p.ops.size() : (size_t)1);
            if (chunk == 0) break;
        }
        // 3. drop fault annotations
        for (size_t i = 0; i < p.ops.size(); ++i)
            if (p.ops[i].fk)
            {
                Plan q = p; q.ops[i].fk = 0; q.ops[i].fa = 0; q.ops[i].fb = 0;
                if (still_fails(q, t)) p = q;
            }
        // 4. shrink integer arguments toward 0
        for (size_t i = 0; i < p.ops.size(); ++i)
            for (int k = 0; k < 4; ++k)
            {
                for (int round = 0; round < 24; ++round)
                {
                    int64_t v = p.ops[i].a[k];
                    if (v == 0) break;
                    int64_t cands[3] = {0, v / 2, v > 0 ? v - 1 : v + 1};
                    bool improved = false;
                    for (int c = 0; c < 3; ++c)
                    {
                        if (cands[c] == p.ops[i].a[k]) continue;
                        Plan q = p; q.ops[i].a[k] = cands[c];
                        if (still_fails(q, t)) { p = q; improved = true; break; }
                    }
                    if (!improved || shrink_used >= shrink_budget) break;
                }
            }
        for (size_t i = 0; i < p.ops.size(); ++i)
            if (p.ops[i].client)
            {
                Plan q = p; q.ops[i].client = 0;
                if (still_fails(q, t)) p = q;
            }
        // 5. shrink knobs
        for (auto const &ks : eng->shrinkable_knobs())
        {
            int64_t v = p.knob(ks.name, ks.min);
            if (v <= ks.min) continue;
            int64_t cands[2] = {ks.min, ks.min + (v - ks.min) / 2};
            for (int c = 0; c < 2; ++c)
            {
                if (cands[c] == v) continue;
                Plan q = p; q.set(ks.name, cands[c]);
                if (still_fails(q, t)) { p = q; break; }
            }
        }
        return p;
    }

    // ------------------------------------------------------------ known findings
    struct Known { std::string prop, cls, site, text; };
    std::vector<Known> known;
    void load_known()
    {
        std::string t = read_file(known_path);
        size_t pos = 0;
        while (pos < t.size())
        {
            size_t nl = t.find('\n', pos); if (nl == std::string::npos) nl = t.size();
            std::string line = t.substr(pos, nl - pos); pos = nl + 1;
            if (line.compare(0, 8, "finding:") != 0) continue;
            Known k; k.text = line;
            auto field = [&](char const *name) {
                std::string key = std::string(name) + "=";
                size_t p = line.find(key); if (p == std::string::npos) return std::string();
                p += key.size(); size_t e = p; while (e < line.size() && line[e] != ' ') ++e;
                return line.substr(p, e - p);
            };
            k.prop = field("property"); k.cls = field("class"); k.site = field("site");
            if (!k.prop.empty() && !k.cls.empty() && !k.site.empty()) known.push_back(k);
        }
    }
    Known const *match_known(std::string const &cls, std::string const &site) const
    {
        for (auto const &k : known) if (k.prop == prop && k.cls == cls && k.site == site) return &k;
        return nullptr;
    }

    // ------------------------------------------------------------ worker
    std::map<std::string, uint64_t> known_counts; // per worker process
    std::set<std::string> known_saved;
    struct WorkerSink : Engine::Sink
    {
        Driver *d; uint64_t idx; uint64_t evals = 0; uint64_t hash = FNV0; uint64_t steps = 0;
        bool violated = false; std::string record_path; int outfd;
        Plan vplan; Result vres;
        std::vector<std::pair<Plan, Result>> known_first; // first instance (per worker) of each listed finding seen in this item
        void about_to_run(Plan const &p) override
        {
            if (!record_path.empty()) write_file(record_path, plan_to_text(p, *d->eng));
        }
        bool report(Plan const &p, Result const &r) override
        {
            ++evals; hash = fnv_mix(hash, r.hash); steps += r.steps;
            if (r.v.hit && !violated)
            {
                std::string const cls = sanitize_token(r.v.cls), site = sanitize_token(r.v.site);
                if (d->match_known(cls, site))
                { // a listed finding: count it, keep the first instance, and go on (DESIGN.md 3.7)
                    std::string key = cls + "@" + site;
                    d->known_counts[key]++;
                    if (!d->known_saved.count(key)) { d->known_saved.insert(key); known_first.push_back({p, r}); }
                    return true;
                }
                violated = true; vplan = p; vres = r; return false;
            }
            return !violated;
        }
    };
    void emit_known(FILE *out)
    {
        for (auto &kv : known_counts) if (kv.second) { fprintf(out, "S known.%s %llu\n", kv.first.c_str(), (unsigned long long)kv.second); kv.second = 0; }
    }
    static void emit_stats(FILE *out, Stats &st)
    {
        for (auto const &kv : st.c) fprintf(out, "S %s %llu\n", kv.first.c_str(), (unsigned long long)kv.second);
        if (!st.hll.empty())
        {
            fputs("H ", out);
            for (int i = 0; i < HLL::M; ++i) fputc('A' + st.hll.r[i] % 64, out); // registers are < 64
            fputc('\n', out);
        }
        fflush(out);
        st.clear();
    }
    [[noreturn]] void worker_main(int w, int nw, uint64_t first, uint64_t total, int shift, Shared *sh, int wfd, std::string const &record_path)
    {
        g_shared = sh;
        FILE *out = fdopen(wfd, "w");
        Stats st;
        uint64_t since = 0;
        for (uint64_t idx = first; idx < total; ++idx)
        {
            if ((int)((idx + (uint64_t)shift) % (uint64_t)nw) != w) continue;
            fprintf(out, "B %llu\n", (unsigned long long)idx); fflush(out);
            cpu_alarm((unsigned)item_timeout);
            WorkerSink sink; sink.d = this; sink.idx = idx; sink.record_path = record_path;
            sh->phase = 1; sh->site[0] = 0; sh->op_index = -1;
            eng->run_item(prop, run_seed(batch_seed, idx), tier, st, sink);
            sh->phase = 0;
            cpu_alarm(0);
            for (size_t kf = 0; kf < sink.known_first.size(); ++kf)
            {
                Plan kp = sink.known_first[kf].first; Result const &kr = sink.known_first[kf].second;
                std::string path = out_dir + "/known-" + std::to_string(idx) + "-" + std::to_string(kf) + "-" + std::to_string((long)getpid()) + ".plan";
                kp.has_exp = true; kp.exp_cls = sanitize_token(kr.v.cls); kp.exp_site = sanitize_token(kr.v.site); kp.exp_hash = kr.hash;
                write_file(path, plan_to_text(kp, *eng));
                fprintf(out, "K %llu %s %s %s\n", (unsigned long long)idx, kp.exp_cls.c_str(), kp.exp_site.c_str(), path.c_str());
            }
            if (sink.violated)
            {
                std::string path = out_dir + "/raw-" + std::to_string(idx) + ".plan";
                Plan vp = sink.vplan; vp.has_exp = true; vp.exp_cls = sanitize_token(sink.vres.v.cls); vp.exp_site = sanitize_token(sink.vres.v.site); vp.exp_hash = sink.vres.hash;
                write_file(path, plan_to_text(vp, *eng));
                fprintf(out, "V %llu %llu %s %s %s\n", (unsigned long long)idx, (unsigned long long)sink.evals, sanitize_token(sink.vres.v.cls).c_str(), sanitize_token(sink.vres.v.site).c_str(), path.c_str());
                emit_known(out); emit_stats(out, st);
                fflush(out);
                _exit(3); // state may be damaged after a violation: the parent starts a fresh worker
            }
            fprintf(out, "R %llu %llu %016llx %llu\n", (unsigned long long)idx, (unsigned long long)sink.evals, (unsigned long long)sink.hash, (unsigned long long)sink.steps);
            if (++since >= 256) { emit_known(out); emit_stats(out, st); since = 0; }
            else fflush(out);
        }
        emit_known(out); emit_stats(out, st);
        fprintf(out, "E\n"); fflush(out);
        flush_profile();
        _exit(0);
    }

    struct RawViolation { uint64_t idx; std::string cls, site, path; bool crashed; bool known = false; };
    struct BatchOut
    {
        uint64_t items = 0, evals = 0, steps = 0;
        std::map<uint64_t, uint64_t> hashes; // idx -> item hash (only idx < keep_hashes)
        std::vector<RawViolation> viol, known;
        std::vector<uint64_t> crashed_idx;
        std::map<uint64_t, int> crash_status; // idx -> wait status of the worker that died in it
        std::map<uint64_t, std::string> crash_text; // idx -> first line of what the dying worker wrote to stderr
        Stats st;
        bool wall_capped = false, stopped_after_violations = false;
    };

    void run_pool(uint64_t total, int shift, uint64_t keep_hashes, BatchOut &bo, double deadline)
    {
        int const nw = (int)std::min<uint64_t>((uint64_t)workers, total ? total : 1);
        Shared *sh = (Shared *)mmap(nullptr, sizeof(Shared) * (size_t)nw, PROT_READ | PROT_WRITE, MAP_SHARED | MAP_ANONYMOUS, -1, 0);
        memset(sh, 0, sizeof(Shared) * (size_t)nw);
        struct W { pid_t pid = -1; int fd = -1; std::string buf; int64_t last_begin = -1; bool begun_open = false; bool done = false; bool saw_v = false; };
        std::vector<W> ws((size_t)nw);
        auto spawn = [&](int w, uint64_t first) {
            int pfd[2]; if (pipe(pfd) != 0) { perror("pipe"); exit(2); }
            fflush(stdout); fflush(stderr);
            pid_t pid = fork();
            if (pid < 0) { perror("fork"); exit(2); }
            if (pid == 0)
            {
                close(pfd[0]);
                for (auto &o : ws) if (o.fd >= 0) close(o.fd);
                // sanitizer reports of a pooled worker go to a per-worker file (kept only when the worker dies)
                std::string ep = out_dir + "/worker-" + std::to_string(w) + ".err";
                int dn = open(ep.c_str(), O_WRONLY | O_CREAT | O_TRUNC, 0644); if (dn < 0) dn = open("/dev/null", O_WRONLY);
                if (dn >= 0) dup2(dn, 2);
                worker_main(w, nw, first, total, shift, &sh[w], pfd[1], "");
            }
            close(pfd[1]);
            ws[(size_t)w].pid = pid; ws[(size_t)w].fd = pfd[0]; ws[(size_t)w].buf.clear(); ws[(size_t)w].begun_open = false; ws[(size_t)w].saw_v = false;
        };
        for (int w = 0; w < nw; ++w) spawn(w, 0);
        int alive = nw;
        bool stopping = false;
        while (alive > 0)
        {
            std::vector<struct pollfd> pf; std::vector<int> idxmap;
            for (int w = 0; w < nw; ++w) if (ws[(size_t)w].fd >= 0) { struct pollfd p; p.fd = ws[(size_t)w].fd; p.events = POLLIN; p.revents = 0; pf.push_back(p); idxmap.push_back(w); }
            if (pf.empty()) break;
            int rc = poll(pf.data(), (nfds_t)pf.size(), 1000);
            if (rc < 0 && errno != EINTR) { perror("poll"); exit(2); }
            if (deadline > 0 && now_s() > deadline && !stopping)
            {
                stopping = true; bo.wall_capped = true;
                for (auto &w : ws) if (w.pid > 0 && !w.done) kill(w.pid, SIGKILL);
            }
            for (size_t k = 0; k < pf.size(); ++k)
            {
                if (!(pf[k].revents & (POLLIN | POLLHUP | POLLERR))) continue;
                int w = idxmap[k]; W &wk = ws[(size_t)w];
                char buf[65536];
                ssize_t n = read(wk.fd, buf, sizeof buf);
                if (n > 0)
                {
                    wk.buf.append(buf, (size_t)n);
                    size_t pos = 0;
                    for (;;)
                    {
                        size_t nl = wk.buf.find('\n', pos); if (nl == std::string::npos) break;
                        std::string line = wk.buf.substr(pos, nl - pos); pos = nl + 1;
                        if (line.empty()) continue;
                        unsigned long long a, b, c2; unsigned long long hx;
                        switch (line[0])
                        {
                        case 'B': if (sscanf(line.c_str(), "B %llu", &a) == 1) { wk.last_begin = (int64_t)a; wk.begun_open = true; } break;
                        case 'R':
                            if (sscanf(line.c_str(), "R %llu %llu %llx %llu", &a, &b, &hx, &c2) == 4)
                            { ++bo.items; bo.evals += b; bo.steps += c2; wk.begun_open = false; if (a < keep_hashes) bo.hashes[a] = hx; }
                            break;
                        case 'V':
                        {
                            char cls[128], site[128], path[512];
                            if (sscanf(line.c_str(), "V %llu %llu %127s %127s %511s", &a, &b, cls, site, path) == 5)
                            { ++bo.items; bo.evals += b; wk.begun_open = false; wk.saw_v = true; RawViolation rv; rv.idx = a; rv.cls = cls; rv.site = site; rv.path = path; rv.crashed = false; bo.viol.push_back(rv); }
                            break;
                        }
                        case 'K':
                        {
                            char cls[128], site[128], path[512];
                            if (sscanf(line.c_str(), "K %llu %127s %127s %511s", &a, cls, site, path) == 4)
                            { RawViolation rv; rv.idx = a; rv.cls = cls; rv.site = site; rv.path = path; rv.crashed = false; rv.known = true; bo.known.push_back(rv); }
                            break;
                        }
                        case 'S':
                        {
                            char key[256];
                            if (sscanf(line.c_str(), "S %255s %llu", key, &a) == 2) bo.st.c[key] += a;
                            break;
                        }
                        case 'H':
                            if (line.size() >= 2 + (size_t)HLL::M)
                                for (int i = 0; i < HLL::M; ++i) { unsigned char v = (unsigned char)(line[2 + (size_t)i] - 'A'); if (v > bo.st.hll.r[i]) bo.st.hll.r[i] = v; }
                            break;
                        case 'E': wk.done = true; break;
                        default: break;
                        }
                    }
                    wk.buf.erase(0, pos);
                }
                else if (n == 0 || (n < 0 && errno != EINTR && errno != EAGAIN))
                {
                    close(wk.fd); wk.fd = -1;
                    int status = 0; while (waitpid(wk.pid, &status, 0) < 0 && errno == EINTR) {}
                    wk.pid = -1;
                    if (wk.done || stopping) { --alive; continue; }
                    // died: either after a reported violation (exit 3) or a crash inside item last_begin
                    if (wk.begun_open && !wk.saw_v)
                    {
                        bo.crashed_idx.push_back((uint64_t)wk.last_begin); bo.crash_status[(uint64_t)wk.last_begin] = status; ++bo.items;
                        std::string et = read_file(out_dir + "/worker-" + std::to_string(w) + ".err");
                        size_t p0 = et.find("ERROR:"); if (p0 == std::string::npos) p0 = et.find("runtime error"); if (p0 == std::string::npos) p0 = 0;
                        size_t e0 = et.find('\n', p0);
                        bo.crash_text[(uint64_t)wk.last_begin] = et.substr(p0, (e0 == std::string::npos ? et.size() : e0) - p0).substr(0, 300);
                    }
                    uint64_t nextfirst = (uint64_t)(wk.last_begin + 1);
                    bool more = false;
                    for (uint64_t i = nextfirst; i < total; ++i) if ((int)((i + (uint64_t)shift) % (uint64_t)nw) == w) { more = true; break; }
                    if (more && bo.viol.size() + bo.crashed_idx.size() < 64) spawn(w, nextfirst);
                    else
                    {
                        --alive;
                        if (more && !stopping)
                        { // enough violating items to classify: do not spend the budget on collecting hundreds more
                            stopping = true; bo.stopped_after_violations = true;
                            for (auto &o : ws) if (o.pid > 0 && !o.done) kill(o.pid, SIGKILL);
                        }
                    }
                }
            }
        }
        munmap(sh, sizeof(Shared) * (size_t)nw);
    }

    // re-run one item in a fresh child in record mode to obtain the fatal plan of a crash
    bool record_crash(uint64_t idx, RawViolation &rv)
    {
        std::string rec = out_dir + "/crash-" + std::to_string(idx) + ".plan";
        unlink(rec.c_str());
        Shared *sh = (Shared *)mmap(nullptr, sizeof(Shared), PROT_READ | PROT_WRITE, MAP_SHARED | MAP_ANONYMOUS, -1, 0);
        memset(sh, 0, sizeof *sh);
        char errpath[] = "/tmp/simerrXXXXXX"; int efd = mkstemp(errpath);
        int pfd[2]; if (pipe(pfd) != 0) return false;
        fflush(stdout); fflush(stderr);
        pid_t pid = fork();
        if (pid == 0)
        {
            close(pfd[0]); dup2(efd, 2);
            worker_main(0, 1, idx, idx + 1, 0, sh, pfd[1], rec);
        }
        close(pfd[1]);
        std::string outtxt; char buf[4096]; ssize_t n;
        while ((n = read(pfd[0], buf, sizeof buf)) > 0) outtxt.append(buf, (size_t)n);
        close(pfd[0]);
        int status = 0; while (waitpid(pid, &status, 0) < 0 && errno == EINTR) {}
        close(efd);
        std::string errtext = read_file(errpath); unlink(errpath);
        bool ok = false;
        if (outtxt.find("\nV ") != std::string::npos || outtxt.compare(0, 2, "V ") == 0)
        { // turned into an in-process violation this time: should not happen for a deterministic run
            munmap(sh, sizeof *sh); return false;
        }
        if (!(WIFEXITED(status) && WEXITSTATUS(status) == 0))
        {
            rv.idx = idx; rv.crashed = true; rv.cls = classify_crash(status, errtext); rv.site = sh->site[0] ? sh->site : "-"; rv.path = rec;
            ok = !read_file(rec).empty();
        }
        munmap(sh, sizeof *sh);
        return ok;
    }

    // ------------------------------------------------------------ batch
    int batch()
    {
        double const t0 = now_s();
        mkdirs(out_dir);
        { // start from an empty output directory: replays of earlier runs would be mistaken for this run's
            std::string cmd = "rm -f '" + out_dir + "'/*.replay '" + out_dir + "'/*.plan 2>/dev/null";
            if (system(cmd.c_str()) != 0) {}
        }
        load_known();
        if (!runs) runs = eng->default_runs(prop, tier);
        if (!det_set) det_runs = tier ? 2000 : 200;
        if (!item_timeout_set) item_timeout = 60; // CPU seconds per item (the heaviest legitimate item, a 4 GiB CRC message in the thorough tier, takes about 25 s)
        if (max_seconds <= 0) max_seconds = tier ? 1500 : 45; // wall-clock cap: only stops scheduling further runs, reported when hit
        double deadline = max_seconds > 0 ? t0 + max_seconds : 0;
        BatchOut bo;
        uint64_t const D = std::min<uint64_t>(det_runs, runs);
        run_pool(runs, 0, D, bo, deadline);
        // determinism slice: same items, different worker assignment, fresh processes
        BatchOut bd;
        uint64_t mismatches = 0, compared = 0;
        if (D && bo.viol.empty() && bo.crashed_idx.empty())
        {
            int saved = workers; workers = std::max(1, workers / 2 + 1);
            run_pool(D, 1, D, bd, 0);
            workers = saved;
            for (auto const &kv : bd.hashes)
            {
                auto it = bo.hashes.find(kv.first);
                if (it == bo.hashes.end()) continue;
                ++compared;
                if (it->second != kv.second) { ++mismatches; fprintf(stderr, "DETERMINISM MISMATCH item %llu: %016llx vs %016llx\n", (unsigned long long)kv.first, (unsigned long long)it->second, (unsigned long long)kv.second); }
            }
        }
        // crashes -> plans
        uint64_t env_kills = 0;
        uint64_t timeouts_recorded = 0, timeouts_skipped = 0;
        for (uint64_t idx : bo.crashed_idx)
        {
            RawViolation rv;
            int const stt = bo.crash_status.count(idx) ? bo.crash_status[idx] : 0;
            bool const timed_out = WIFSIGNALED(stt) && (WTERMSIG(stt) == SIGVTALRM || WTERMSIG(stt) == SIGALRM);
            // every re-execution of a hanging item costs a full item timeout: four of them are enough to report the hang
            if (timed_out && timeouts_recorded >= 4) { ++timeouts_skipped; continue; }
            if (record_crash(idx, rv)) { bo.viol.push_back(rv); if (timed_out) ++timeouts_recorded; continue; }
            bool const external = WIFSIGNALED(stt) && (WTERMSIG(stt) == SIGKILL || WTERMSIG(stt) == SIGTERM || WTERMSIG(stt) == SIGHUP || WTERMSIG(stt) == SIGINT);
            RawViolation rv2;
            if (external && !record_crash(idx, rv2))
            { // killed from outside (e.g. the kernel's out-of-memory killer) and the item runs to completion when re-executed, twice
                printf("NOTE property=%s a worker was killed by signal %d while executing item %llu; the item completes without a violation when re-executed (environmental kill, not a finding)\n", prop.c_str(), WTERMSIG(stt), (unsigned long long)idx);
                ++env_kills;
                continue;
            }
            RawViolation x; x.idx = idx; x.crashed = true; x.cls = "nonreproducible-crash"; x.site = classify_crash(stt, "") + (bo.crash_text.count(idx) && !bo.crash_text[idx].empty() ? ": " + bo.crash_text[idx] : std::string()); x.path = ""; bo.viol.push_back(x);
        }
        if (timeouts_skipped) printf("NOTE property=%s %llu further items hit the per-item CPU timeout and were not re-executed individually\n", prop.c_str(), (unsigned long long)timeouts_skipped);
        // group, shrink, gate
        int exit_code = 0;
        uint64_t new_violations = 0, harness_errors = 0, foreign_notes = 0;
        std::map<std::pair<std::string, std::string>, std::vector<RawViolation>> groups;
        for (auto const &rv : bo.viol) groups[{rv.cls, rv.site}].push_back(rv);
        for (auto const &rv : bo.known) groups[{rv.cls, rv.site}].push_back(rv);
        std::vector<std::string> known_lines, viol_lines;
        int handled = 0, timeout_groups = 0;
        for (auto const &g : groups)
        {
            if (handled++ >= 20) break;
            RawViolation const &rv = g.second.front();
            if (rv.cls == "timeout" && timeout_groups++ >= 2) continue; // the same hang seen from several call sites
            if (rv.path.empty()) { ++harness_errors; printf("HARNESS-ERROR property=%s item=%llu: a worker died (%s) and the death did not recur when the item was re-executed in a fresh process (%zu such items)\n", prop.c_str(), (unsigned long long)rv.idx, rv.site.c_str(), g.second.size()); continue; }
            Plan p; std::string err;
            if (!plan_from_text(read_file(rv.path), *eng, p, err)) { ++harness_errors; printf("HARNESS-ERROR property=%s cannot parse %s: %s\n", prop.c_str(), rv.path.c_str(), err.c_str()); continue; }
            if (eng->foreign(p))
            {
                printf("NOTE property=%s item=%llu: a history without any injected fault fails (%s at %s); that belongs to the fault-free check of the container, not to %s\n", prop.c_str(), (unsigned long long)rv.idx, rv.cls.c_str(), rv.site.c_str(), prop.c_str());
                ++foreign_notes;
                continue;
            }
            // establish the class/site as observed when the plan runs alone in a child
            Outcome o0 = run_plan_child(p);
            if (!o0.violated) { ++harness_errors; printf("HARNESS-ERROR property=%s item=%llu violation (%s at %s) did not recur when its plan was re-executed\n", prop.c_str(), (unsigned long long)rv.idx, rv.cls.c_str(), rv.site.c_str()); continue; }
            Target t{o0.cls, o0.site};
            Plan m = shrink(p, t);
            // gate: twice in children, hashes equal, then a fresh process
            Outcome a = run_plan_child(m), b = run_plan_child(m);
            bool gate = a.violated && b.violated && a.cls == t.cls && b.cls == t.cls && a.site == t.site && b.site == t.site && a.hash == b.hash;
            m.has_exp = true; m.exp_cls = sanitize_token(t.cls); m.exp_site = sanitize_token(t.site); m.exp_hash = a.hash;
            std::string rpath = out_dir + "/" + std::to_string(run_seed(batch_seed, rv.idx)) + ".replay";
            write_file(rpath, plan_to_text(m, *eng));
            if (gate)
            {
                std::string cmd = "'" + self_path + "' replay '" + rpath + "' >/dev/null 2>&1";
                int rc = system(cmd.c_str());
                gate = WIFEXITED(rc) && WEXITSTATUS(rc) == 1;
            }
            if (!gate) { ++harness_errors; printf("HARNESS-ERROR property=%s replay gate failed for %s (class %s site %s)\n", prop.c_str(), rpath.c_str(), t.cls.c_str(), t.site.c_str()); continue; }
            Known const *k = match_known(sanitize_token(t.cls), sanitize_token(t.site));
            char line[1024];
            if (k)
            {
                uint64_t hits = g.second.size();
                auto hc = bo.st.c.find("known." + sanitize_token(t.cls) + "@" + sanitize_token(t.site));
                if (hc != bo.st.c.end() && hc->second > hits) hits = hc->second;
                snprintf(line, sizeof line, "KNOWN-FINDING: property=%s class=%s site=%s runs=%llu ops=%zu replay=%s :: %s", prop.c_str(), sanitize_token(t.cls).c_str(), sanitize_token(t.site).c_str(), (unsigned long long)hits, m.ops.size(), rpath.c_str(), a.detail.c_str());
                known_lines.push_back(line);
            }
            else
            {
                ++new_violations;
                snprintf(line, sizeof line, "VIOLATION property=%s replay=%s class=%s site=%s runs=%zu ops=%zu :: %s", prop.c_str(), rpath.c_str(), sanitize_token(t.cls).c_str(), sanitize_token(t.site).c_str(), g.second.size(), m.ops.size(), a.detail.c_str());
                viol_lines.push_back(line);
            }
        }
        for (auto const &l : known_lines) puts(l.c_str());
        for (auto const &l : viol_lines) puts(l.c_str());
        if (mismatches) { ++harness_errors; printf("HARNESS-ERROR property=%s determinism: %llu of %llu re-executed items produced a different event hash\n", prop.c_str(), (unsigned long long)mismatches, (unsigned long long)compared); }
        // remove raw files
        for (auto const &rv : bo.viol) if (!rv.path.empty()) unlink(rv.path.c_str());
        for (auto const &rv : bo.known) if (!rv.path.empty()) unlink(rv.path.c_str());
        for (auto const &rv : bd.known) if (!rv.path.empty()) unlink(rv.path.c_str());
        for (auto const &rv : bd.viol) if (!rv.path.empty()) unlink(rv.path.c_str());
        { std::string cmd = "rm -f '" + out_dir + "'/worker-*.err 2>/dev/null"; if (system(cmd.c_str()) != 0) {} }
        double const wall = now_s() - t0;
        write_evidence(bo, wall, compared, mismatches, new_violations, known_lines, viol_lines);
        if (new_violations) exit_code = 1;
        else if (harness_errors) exit_code = 2;
        printf("%s %s tier=%s seed=%llu items=%llu evaluations=%llu steps=%llu distinct_states~%.0f wall=%.1fs det=%llu/%llu violations=%llu known=%zu%s\n",
               exit_code == 0 ? "PASS" : (exit_code == 1 ? "FAIL" : "ERROR"), prop.c_str(), tier ? "thorough" : "quick", (unsigned long long)batch_seed,
               (unsigned long long)bo.items, (unsigned long long)bo.evals, (unsigned long long)bo.steps, bo.st.hll.estimate(), wall,
               (unsigned long long)(compared - mismatches), (unsigned long long)compared, (unsigned long long)new_violations, known_lines.size(), bo.wall_capped ? " (wall cap hit)" : bo.stopped_after_violations ? " (stopped after 64 violating items)" : "");
        return exit_code;
    }

    void write_evidence(BatchOut &bo, double wall, uint64_t compared, uint64_t mismatches, uint64_t new_violations,
                        std::vector<std::string> const &known_lines, std::vector<std::string> const &viol_lines)
    {
        if (evidence_path.empty()) return;
        std::string j = "{\n";
        char buf[512];
        j += " \"property_id\": \"" + prop + "\",\n";
        j += std::string(" \"tier\": \"") + (tier ? "thorough" : "quick") + "\",\n";
        snprintf(buf, sizeof buf, " \"seed\": %llu,\n", (unsigned long long)(batch_seed & 0x7fffffffffffffffull)); j += buf;
        j += " \"level\": \"" + eng->level(prop) + "\",\n";
        j += " \"coverage\": {\n";
        snprintf(buf, sizeof buf, "  \"evaluations\": %llu,\n", (unsigned long long)bo.evals); j += buf;
        uint64_t dn = (uint64_t)(bo.st.hll.estimate() + 0.5);
        snprintf(buf, sizeof buf, "  \"distinct_nontrivial\": %llu,\n", (unsigned long long)dn); j += buf;
        j += "  \"rule\": \"" + json_escape(eng->rule(prop)) + "\",\n";
        j += "  \"samples\": [";
        for (uint64_t i = 0; i < 2 && i < runs; ++i)
        {
            Plan p = eng->generate(prop, run_seed(batch_seed, i), tier);
            if (p.ops.size() > 40) { p.ops.resize(40); }
            if (i) j += ", ";
            j += "\"" + json_escape(plan_to_text(p, *eng)) + "\"";
        }
        j += "],\n";
        snprintf(buf, sizeof buf, "  \"batch_items\": %llu,\n  \"simulated_steps\": %llu,\n", (unsigned long long)bo.items, (unsigned long long)bo.steps); j += buf;
        snprintf(buf, sizeof buf, "  \"runs_per_hour\": %.0f,\n  \"seeds_per_hour\": %.0f,\n", wall > 0 ? (double)bo.evals * 3600.0 / wall : 0.0, wall > 0 ? (double)bo.items * 3600.0 / wall : 0.0); j += buf;
        snprintf(buf, sizeof buf, "  \"wall_cap_hit\": %s,\n", bo.wall_capped ? "true" : "false"); j += buf;
        // counters split by prefix
        auto section = [&](char const *name, char const *prefix) {
            j += std::string("  \"") + name + "\": {";
            bool first = true; size_t pl = strlen(prefix);
            for (auto const &kv : bo.st.c)
                if (kv.first.compare(0, pl, prefix) == 0)
                {
                    if (!first) j += ", ";
                    first = false;
                    snprintf(buf, sizeof buf, "\"%s\": %llu", json_escape(kv.first.substr(pl)).c_str(), (unsigned long long)kv.second); j += buf;
                }
            j += "},\n";
        };
        section("faults_injected", "fault.");
        section("probes", "probe.");
        section("ops_executed", "op.");
        section("allocator", "alloc.");
        section("other_counters", "n.");
        section("known_finding_hits", "known.");
        snprintf(buf, sizeof buf, "  \"determinism\": {\"items_reexecuted\": %llu, \"mismatches\": %llu},\n", (unsigned long long)compared, (unsigned long long)mismatches); j += buf;
        j += "  \"components\": [";
        { bool first = true; for (auto const &c : eng->components(prop)) { if (!first) j += ", "; first = false; j += "\"" + json_escape(c) + "\""; } }
        j += "],\n";
        j += "  \"known_findings_hit\": [";
        { bool first = true; for (auto const &c : known_lines) { if (!first) j += ", "; first = false; j += "\"" + json_escape(c) + "\""; } }
        j += "],\n";
        j += "  \"violation_lines\": [";
        { bool first = true; for (auto const &c : viol_lines) { if (!first) j += ", "; first = false; j += "\"" + json_escape(c) + "\""; } }
        j += "],\n";
        j += "  \"exhaustive\": false\n";
        j += " },\n";
        j += " \"assumptions\": [";
        { bool first = true; for (auto const &c : eng->assumptions(prop)) { if (!first) j += ", "; first = false; j += "\"" + json_escape(c) + "\""; } }
        j += "],\n";
        snprintf(buf, sizeof buf, " \"wall_s\": %.2f,\n \"violations\": %llu\n}\n", wall, (unsigned long long)new_violations); j += buf;
        std::string dir = evidence_path; size_t sl = dir.rfind('/'); if (sl != std::string::npos) mkdirs(dir.substr(0, sl));
        write_file(evidence_path, j);
    }

    // ------------------------------------------------------------ replay
    int replay(std::string const &path, bool verbose)
    {
        Plan p; std::string err;
        std::string text = read_file(path);
        if (text.empty()) { fprintf(stderr, "cannot read %s\n", path.c_str()); return 2; }
        if (!plan_from_text(text, *eng, p, err)) { fprintf(stderr, "parse error: %s\n", err.c_str()); return 2; }
        std::string log;
        Outcome o = run_plan_child(p, verbose, &log);
        if (verbose) fputs(log.c_str(), stdout);
        if (o.crashed && verbose) fputs(o.stderr_text.c_str(), stdout);
        if (o.violated)
        {
            printf("REPLAY property=%s violated class=%s site=%s op=%d hash=%016llx :: %s\n", p.prop.c_str(), sanitize_token(o.cls).c_str(), sanitize_token(o.site).c_str(), o.op_index, (unsigned long long)o.hash, o.detail.c_str());
            if (p.has_exp && (p.exp_cls != sanitize_token(o.cls) || p.exp_site != sanitize_token(o.site)))
            { printf("REPLAY-MISMATCH expected class=%s site=%s\n", p.exp_cls.c_str(), p.exp_site.c_str()); return 2; }
            if (p.has_exp && !o.crashed && p.exp_hash != o.hash) { printf("REPLAY-MISMATCH expected hash=%016llx\n", (unsigned long long)p.exp_hash); return 2; }
            return 1;
        }
        printf("REPLAY property=%s no violation hash=%016llx\n", p.prop.c_str(), (unsigned long long)o.hash);
        return 0;
    }
};

static inline int driver_main(int argc, char **argv)
{
    Engine *e = make_engine();
    Driver d(e);
    d.self_path = argv[0];
    if (argc < 2) { fprintf(stderr, "usage: %s batch|replay|gen ...\n", argv[0]); return 2; }
    std::string mode = argv[1];
    std::string file;
    uint64_t gen_index = 0;
    for (int i = 2; i < argc; ++i)
    {
        std::string a = argv[i];
        auto val = [&]() -> char const * { if (i + 1 >= argc) { fprintf(stderr, "missing value for %s\n", a.c_str()); exit(2); } return argv[++i]; };
        if (a == "--prop") d.prop = val();
        else if (a == "--tier") { std::string t = val(); d.tier = (t == "thorough") ? 1 : 0; }
        else if (a == "--seed") d.batch_seed = strtoull(val(), nullptr, 10);
        else if (a == "--runs") d.runs = strtoull(val(), nullptr, 10);
        else if (a == "--workers") d.workers = atoi(val());
        else if (a == "--out") d.out_dir = val();
        else if (a == "--evidence") d.evidence_path = val();
        else if (a == "--known") d.known_path = val();
        else if (a == "--det") { d.det_runs = strtoull(val(), nullptr, 10); d.det_set = true; }
        else if (a == "--max-seconds") d.max_seconds = atof(val());
        else if (a == "--item-timeout") { d.item_timeout = atoi(val()); d.item_timeout_set = true; } // for slow instrumentation (valgrind)
        else if (a == "--index") gen_index = strtoull(val(), nullptr, 10);
        else if (a == "--quiet") {}
        else file = a;
    }
    if (mode == "replay") return d.replay(file, true);
    if (mode == "gen")
    {
        Plan p = e->generate(d.prop, run_seed(d.batch_seed, gen_index), d.tier);
        fputs(plan_to_text(p, *e).c_str(), stdout);
        return 0;
    }
    if (mode == "batch")
    {
        if (d.prop.empty()) { fprintf(stderr, "--prop required\n"); return 2; }
        bool okp = false; for (auto const &p : e->properties()) if (p == d.prop) okp = true;
        if (!okp) { fprintf(stderr, "engine %s does not serve %s\n", e->name(), d.prop.c_str()); return 2; }
        if (d.out_dir.empty()) d.out_dir = "/verif/out/" + d.prop;
        if (d.workers < 1) d.workers = 1;
        return d.batch();
    }
    fprintf(stderr, "unknown mode %s\n", mode.c_str());
    return 2;
}

} // namespace sim

extern "C" __attribute__((used, visibility("default"))) const char *__asan_default_options()
{
    return "exitcode=77:detect_leaks=0:abort_on_error=0:allocator_may_return_null=1:detect_stack_use_after_return=0:handle_abort=0";
}
extern "C" __attribute__((used, visibility("default"))) const char *__ubsan_default_options()
{
    return "print_stacktrace=0:halt_on_error=1";
}
