// Deterministic-simulation core shared by all engines (DESIGN.md section 3).
// Header-only; each engine binary is  <engine>.cc + driver.h.
#pragma once
#include <stdint.h>
#include <stdio.h>
#include <stdlib.h>
#include <string.h>
#include <stdarg.h>
#include <string>
#include <vector>
#include <map>
#include <algorithm>
#include <utility>

#if defined(__has_feature)
#if __has_feature(address_sanitizer)
#define SIM_ASAN 1
#endif
#endif
#if defined(__SANITIZE_ADDRESS__) && !defined(SIM_ASAN)
#define SIM_ASAN 1
#endif
#ifdef SIM_ASAN
#include <sanitizer/asan_interface.h>
#define SIM_POISON(p, n) __asan_poison_memory_region((p), (n))
#define SIM_UNPOISON(p, n) __asan_unpoison_memory_region((p), (n))
#else
#define SIM_POISON(p, n) ((void)0)
#define SIM_UNPOISON(p, n) ((void)0)
#endif

namespace sim {

// ---------------------------------------------------------------- rng
static inline uint64_t splitmix64(uint64_t x)
{
    x += 0x9E3779B97F4A7C15ull;
    x = (x ^ (x >> 30)) * 0xBF58476D1CE4E5B9ull;
    x = (x ^ (x >> 27)) * 0x94D049BB133111EBull;
    return x ^ (x >> 31);
}
static inline uint64_t run_seed(uint64_t batch_seed, uint64_t i)
{
    return splitmix64(batch_seed * 0x9E3779B97F4A7C15ull + i);
}
struct Rng
{
    uint64_t s[4];
    explicit Rng(uint64_t seed = 1)
    {
        uint64_t x = seed;
        for (int i = 0; i < 4; ++i) { x = splitmix64(x); s[i] = x; }
        if (!(s[0] | s[1] | s[2] | s[3])) s[0] = 1;
    }
    static uint64_t rotl(uint64_t x, int k) { return (x << k) | (x >> (64 - k)); }
    uint64_t next()
    {
        uint64_t const r = rotl(s[1] * 5, 7) * 9, t = s[1] << 17;
        s[2] ^= s[0]; s[3] ^= s[1]; s[1] ^= s[2]; s[0] ^= s[3];
        s[2] ^= t; s[3] = rotl(s[3], 45);
        return r;
    }
    // uniform in [0,n), n>0 (bias irrelevant for scheduling purposes, but keep it tiny)
    uint64_t below(uint64_t n) { return n ? (uint64_t)(((__uint128_t)next() * n) >> 64) : 0; }
    int64_t range(int64_t lo, int64_t hi) { return lo + (int64_t)below((uint64_t)(hi - lo + 1)); }
    bool chance(unsigned num, unsigned den) { return below(den) < num; }
    template <class T, size_t N> T pick(T const (&a)[N]) { return a[below(N)]; }
    // geometric-ish length in [lo,hi]: most draws short
    int64_t geolen(int64_t lo, int64_t hi)
    {
        int64_t span = hi - lo;
        int sh = (int)below(6); // 0..5
        int64_t m = span >> sh;
        return lo + (int64_t)below((uint64_t)m + 1);
    }
};

// ---------------------------------------------------------------- hashing
static inline uint64_t fnv_mix(uint64_t h, uint64_t x)
{
    for (int i = 0; i < 8; ++i) { h ^= (x >> (8 * i)) & 0xff; h *= 0x100000001B3ull; }
    return h;
}
static inline uint64_t fnv_bytes(uint64_t h, void const *p, size_t n)
{
    unsigned char const *b = (unsigned char const *)p;
    for (size_t i = 0; i < n; ++i) { h ^= b[i]; h *= 0x100000001B3ull; }
    return h;
}
static const uint64_t FNV0 = 0xcbf29ce484222325ull;

// ---------------------------------------------------------------- plan
enum { FAULT_NONE = 0 };
struct Op
{
    int kind = 0;
    int client = 0;
    int64_t a[4] = {0, 0, 0, 0};
    int fk = 0;     // fault kind attached to this op (engine specific; 0 = none)
    int64_t fa = 0; // fault argument
    int64_t fb = 0; // second fault argument
};
struct Plan
{
    std::string engine, prop;
    uint64_t seed = 0;
    std::vector<std::pair<std::string, int64_t>> knobs;
    std::vector<Op> ops;
    // expectation block (only in written replay files)
    std::string exp_cls, exp_site;
    uint64_t exp_hash = 0;
    bool has_exp = false;

    int64_t knob(char const *name, int64_t def = 0) const
    {
        for (auto const &k : knobs) if (k.first == name) return k.second;
        return def;
    }
    void set(char const *name, int64_t v)
    {
        for (auto &k : knobs) if (k.first == name) { k.second = v; return; }
        knobs.push_back({name, v});
    }
};

struct Violation
{
    bool hit = false;
    std::string cls, site, detail;
    int op_index = -1;
};
struct Result
{
    Violation v;
    uint64_t hash = FNV0;
    uint64_t steps = 0; // simulated steps (ops executed / samples)
};

// ---------------------------------------------------------------- HyperLogLog (m = 4096)
struct HLL
{
    enum { P = 12, M = 1 << P };
    unsigned char r[M];
    HLL() { memset(r, 0, sizeof r); }
    void add(uint64_t h)
    {
        h = splitmix64(h);
        unsigned idx = (unsigned)(h >> (64 - P));
        uint64_t w = (h << P) | (1ull << (P - 1));
        unsigned char rho = (unsigned char)(__builtin_clzll(w) + 1);
        if (rho > r[idx]) r[idx] = rho;
    }
    void merge(HLL const &o) { for (int i = 0; i < M; ++i) if (o.r[i] > r[i]) r[i] = o.r[i]; }
    bool empty() const { for (int i = 0; i < M; ++i) if (r[i]) return false; return true; }
    double estimate() const
    {
        double sum = 0; int zeros = 0;
        for (int i = 0; i < M; ++i) { sum += 1.0 / (double)(1ull << r[i]); if (!r[i]) ++zeros; }
        double const m = M, alpha = 0.7213 / (1 + 1.079 / m);
        double e = alpha * m * m / sum;
        if (e <= 2.5 * m && zeros) e = m * __builtin_log(m / zeros);
        return e;
    }
};

struct Stats
{
    std::map<std::string, uint64_t> c;
    HLL hll;
    void add(char const *k, uint64_t n = 1) { c[k] += n; }
    void add(std::string const &k, uint64_t n = 1) { c[k] += n; }
    void state(uint64_t h) { hll.add(h); }
    void clear() { c.clear(); hll = HLL(); }
};

// ---------------------------------------------------------------- crash-info region shared with the parent
struct Shared
{
    char site[64];
    int op_index;
    int phase; // 0 idle, 1 executing
    uint64_t hash;
    char cls[64];     // filled on an in-process violation
    char detail[400];
    int violated;
    uint64_t steps;
};
extern Shared *g_shared; // always valid (points to a static dummy unless the driver maps one)

static inline void set_site(char const *s)
{
    strncpy(g_shared->site, s, sizeof g_shared->site - 1);
    g_shared->site[sizeof g_shared->site - 1] = 0;
}

// ---------------------------------------------------------------- execution context for engines
struct Ctx
{
    Stats &st;
    FILE *log; // replay mode only
    uint64_t h = FNV0;
    Violation v;
    int opi = -1;
    uint64_t steps = 0;
    explicit Ctx(Stats &s, FILE *l) : st(s), log(l) {}
    void obs(uint64_t x) { h = fnv_mix(h, x); }
    void obs_bytes(void const *p, size_t n) { h = fnv_bytes(h, p, n); }
    void site(char const *s) { set_site(s); g_shared->op_index = opi; }
    bool ok() const { return !v.hit; }
    // returns false for convenient `return c.fail(...)`
    bool fail(char const *cls, char const *site_, char const *fmt, ...) __attribute__((format(printf, 4, 5)))
    {
        if (v.hit) return false;
        char buf[400];
        va_list ap; va_start(ap, fmt); vsnprintf(buf, sizeof buf, fmt, ap); va_end(ap);
        v.hit = true; v.cls = cls; v.site = site_; v.detail = buf; v.op_index = opi;
        if (log) fprintf(log, "  !! VIOLATION cls=%s site=%s op=%d : %s\n", cls, site_, opi, buf);
        return false;
    }
    void logf(char const *fmt, ...) __attribute__((format(printf, 2, 3)))
    {
        if (!log) return;
        va_list ap; va_start(ap, fmt); vfprintf(log, fmt, ap); va_end(ap);
    }
    Result result() const { Result r; r.v = v; r.hash = h; r.steps = steps; return r; }
};

// ---------------------------------------------------------------- engine interface
struct KnobShrink { char const *name; int64_t min; };
struct Engine
{
    virtual ~Engine() {}
    virtual char const *name() const = 0;
    virtual std::vector<std::string> properties() const = 0;
    virtual char const *op_name(int kind) const = 0;
    virtual int op_kind(std::string const &name) const = 0;
    // One batch item: generate plan(s) from seed, execute, report every executed plan through `report`.
    // Default: one plan per item. `report` returns false when the item should stop (violation seen).
    struct Sink { virtual bool report(Plan const &, Result const &) = 0; virtual void about_to_run(Plan const &) = 0; virtual ~Sink() {} };
    virtual void run_item(std::string const &prop, uint64_t seed, int tier, Stats &st, Sink &sink)
    {
        Plan p = generate(prop, seed, tier);
        sink.about_to_run(p);
        Result r = execute(p, st, nullptr);
        sink.report(p, r);
    }
    virtual Plan generate(std::string const &prop, uint64_t seed, int tier) = 0;
    virtual Result execute(Plan const &, Stats &, FILE *log) = 0;
    // true when a violating plan carries no fault of this property's kind, i.e. the failure belongs to another
    // property's check (DESIGN.md 7.4); such a plan is reported as a NOTE, never as a violation of this property
    virtual bool foreign(Plan const &) const { return false; }
    // knobs the shrinker may lower (toward min)
    virtual std::vector<KnobShrink> shrinkable_knobs() const { return {}; }
    // text describing real/stub components, written to evidence
    virtual std::vector<std::string> components(std::string const &prop) const = 0;
    virtual std::string rule(std::string const &prop) const = 0;
    virtual std::string level(std::string const &prop) const { (void)prop; return "exploration"; }
    virtual std::vector<std::string> assumptions(std::string const &prop) const = 0;
    // default number of items per tier
    virtual uint64_t default_runs(std::string const &prop, int tier) const = 0;
};
Engine *make_engine();

// ---------------------------------------------------------------- plan text format
static inline std::string plan_to_text(Plan const &p, Engine const &e)
{
    std::string s;
    char buf[256];
    s += "simplan 1\n";
    s += "engine " + p.engine + "\n";
    s += "property " + p.prop + "\n";
    snprintf(buf, sizeof buf, "seed %llu\n", (unsigned long long)p.seed); s += buf;
    for (auto const &k : p.knobs) { snprintf(buf, sizeof buf, "knob %s %lld\n", k.first.c_str(), (long long)k.second); s += buf; }
    for (auto const &o : p.ops)
    {
        snprintf(buf, sizeof buf, "op %s c=%d a=%lld,%lld,%lld,%lld f=%d:%lld:%lld\n", e.op_name(o.kind), o.client,
                 (long long)o.a[0], (long long)o.a[1], (long long)o.a[2], (long long)o.a[3], o.fk, (long long)o.fa, (long long)o.fb);
        s += buf;
    }
    if (p.has_exp)
    {
        snprintf(buf, sizeof buf, "expect cls=%s site=%s hash=%016llx\n", p.exp_cls.c_str(), p.exp_site.c_str(), (unsigned long long)p.exp_hash);
        s += buf;
    }
    return s;
}
static inline bool plan_from_text(std::string const &text, Engine const &e, Plan &p, std::string &err)
{
    p = Plan();
    size_t pos = 0; int lineno = 0;
    while (pos < text.size())
    {
        size_t nl = text.find('\n', pos);
        if (nl == std::string::npos) nl = text.size();
        std::string line = text.substr(pos, nl - pos);
        pos = nl + 1; ++lineno;
        if (line.empty() || line[0] == '#') continue;
        char w[128], w2[128];
        if (line.compare(0, 8, "simplan ") == 0) continue;
        if (sscanf(line.c_str(), "engine %127s", w) == 1) { p.engine = w; continue; }
        if (sscanf(line.c_str(), "property %127s", w) == 1) { p.prop = w; continue; }
        unsigned long long u;
        if (sscanf(line.c_str(), "seed %llu", &u) == 1) { p.seed = u; continue; }
        long long v;
        if (sscanf(line.c_str(), "knob %127s %lld", w, &v) == 2) { p.knobs.push_back({w, v}); continue; }
        if (line.compare(0, 3, "op ") == 0)
        {
            Op o; long long a0, a1, a2, a3, fa, fb = 0; int c, fk;
            int n = sscanf(line.c_str(), "op %127s c=%d a=%lld,%lld,%lld,%lld f=%d:%lld:%lld", w, &c, &a0, &a1, &a2, &a3, &fk, &fa, &fb);
            if (n < 8) { err = "bad op line " + std::to_string(lineno); return false; }
            o.kind = e.op_kind(w);
            if (o.kind < 0) { err = std::string("unknown op ") + w; return false; }
            o.client = c; o.a[0] = a0; o.a[1] = a1; o.a[2] = a2; o.a[3] = a3; o.fk = fk; o.fa = fa; o.fb = fb;
            p.ops.push_back(o);
            continue;
        }
        if (sscanf(line.c_str(), "expect cls=%127s site=%127s hash=%llx", w, w2, &u) == 3)
        {
            p.has_exp = true; p.exp_cls = w; p.exp_site = w2; p.exp_hash = u; continue;
        }
        err = "unparsed line " + std::to_string(lineno) + ": " + line;
        return false;
    }
    if (p.engine.empty()) { err = "no engine line"; return false; }
    return true;
}

static inline std::string json_escape(std::string const &s)
{
    std::string o;
    for (unsigned char ch : s)
    {
        switch (ch)
        {
        case '"': o += "\\\""; break;
        case '\\': o += "\\\\"; break;
        case '\n': o += "\\n"; break;
        case '\t': o += "\\t"; break;
        case '\r': o += "\\r"; break;
        default:
            if (ch < 0x20 || ch >= 0x7f) { char b[8]; snprintf(b, sizeof b, "\\u%04x", ch); o += b; }
            else o += (char)ch;
        }
    }
    return o;
}

} // namespace sim
