// Simulated allocator installed behind liba's public `a_alloc` seam (DESIGN.md 3.5).
#pragma once
#include "core.h"
#include <functional>

#include "a/a.h"

namespace sim {

struct SimAlloc
{
    struct Block
    {
        uint64_t id;
        size_t size; // size the requester asked for
        size_t cap;  // bytes really usable at `user` (>= size after an in-place shrink)
        int op;      // op index that created it
        bool harness;
        void *base; // what came from malloc
    };
    enum { GUARD = 32 };
    enum FaultMode { F_NONE = 0, F_NTH = 1, F_FROM = 2, F_BERNOULLI = 3 };

    std::map<uintptr_t, Block> live;     // keyed by user address; iteration order never feeds a decision
    std::map<uintptr_t, uint64_t> freed; // user address -> id, for double-free classification
    std::map<size_t, std::vector<std::pair<void *, size_t>>> freelist; // reuse buggify (base, cap)
    uint64_t next_id = 1;
    int cur_op = -1;

    // personality (buggify), drawn per run
    bool always_move = false;
    bool junk_fill = true;
    bool reuse_lifo = false;
    bool passthrough = false; // memory comes from the library's own default allocator a_alloc_ (malloc/realloc/free)
    unsigned char junk_seed = 0x5b;
    void *host_alloc(size_t n) { return passthrough ? a_alloc_(nullptr, n ? n : 1) : malloc(n ? n : 1); }
    void host_free(void *p)
    {
        if (!passthrough) { free(p); return; }
        if (a_alloc_(p, 0) != nullptr) error("default-allocator-contract", "a_alloc_(p, 0) did not return NULL");
#ifdef SIM_ASAN
        // the C library's free() leaves the block poisoned; a default allocator that returns without releasing does not
        if (p && !__asan_address_is_poisoned(p)) error("default-allocator-did-not-release", "a_alloc_(p, 0) returned, but the block is still allocated");
#endif
    }

    // faults
    int fmode = F_NONE;
    int64_t fk = 0;
    uint64_t bern_num = 0, bern_den = 1;
    Rng frng{1};
    uint64_t req_in_op = 0, req_total = 0, fired_in_op = 0, fired_total = 0, real_failures = 0;
    std::string last_fired_site;

    // allocator-detected violations (first one wins)
    std::string err_cls, err_detail;

    Stats *stats = nullptr;
    std::function<char const *(void *, size_t)> classify; // call-site class of a request

    void error(char const *cls, char const *fmt, ...) __attribute__((format(printf, 3, 4)))
    {
        if (!err_cls.empty()) return;
        char buf[300];
        va_list ap; va_start(ap, fmt); vsnprintf(buf, sizeof buf, fmt, ap); va_end(ap);
        err_cls = cls; err_detail = buf;
    }

    void fill_junk(unsigned char *p, size_t n)
    {
        if (junk_fill) for (size_t i = 0; i < n; ++i) p[i] = (unsigned char)((junk_seed + i * 31u) | 1u);
        else memset(p, 0, n);
    }

    void *raw_new(size_t size, bool harness)
    {
        void *base = nullptr; size_t cap = size;
        if (reuse_lifo && !harness)
        {
            auto it = freelist.find(size);
            if (it != freelist.end() && !it->second.empty())
            {
                base = it->second.back().first; cap = it->second.back().second;
                it->second.pop_back();
#ifdef SIM_ASAN
                SIM_UNPOISON(base, cap);
                if (cap > size) SIM_POISON((char *)base + size, cap - size);
#endif
                if (stats) stats->add("alloc.reused_block");
            }
        }
#ifdef SIM_ASAN
        if (!base) { base = host_alloc(size); cap = size; }
        unsigned char *user = (unsigned char *)base;
#else
        if (!base) { base = size > SIZE_MAX - 2 * GUARD ? nullptr : host_alloc(size + 2 * GUARD); cap = size; }
        unsigned char *user = (unsigned char *)base + GUARD;
        if (base)
        {
            memset(base, 0xA5, GUARD);
            memset(user + size, 0xA5, GUARD + (cap - size));
        }
#endif
        if (!base)
        { // the real allocator refused (only possible for absurd sizes): report it to the library like any other failure
            if (harness) { fprintf(stderr, "simalloc: host malloc failed\n"); abort(); }
            ++real_failures; ++fired_total; ++fired_in_op; last_fired_site = "real_allocator_refused";
            if (stats) stats->add("fault.alloc_fail.real_allocator_refused");
            return nullptr;
        }
        fill_junk(user, size);
        Block b; b.id = next_id++; b.size = size; b.cap = cap; b.op = cur_op; b.harness = harness; b.base = base;
        live[(uintptr_t)user] = b;
        freed.erase((uintptr_t)user);
        return user;
    }
    void raw_delete(std::map<uintptr_t, Block>::iterator it)
    {
        Block b = it->second;
        unsigned char *user = (unsigned char *)it->first;
        freed[it->first] = b.id;
        live.erase(it);
#ifdef SIM_ASAN
        if (reuse_lifo && !b.harness && b.cap <= 512)
        {
            SIM_UNPOISON(user, b.cap);
            memset(user, 0xDD, b.cap);
            SIM_POISON(user, b.cap);
            freelist[b.size].push_back({b.base, b.cap});
            return;
        }
        SIM_UNPOISON(user, b.cap);
        host_free(b.base);
#else
        memset(user, 0xDD, b.cap);
        if (reuse_lifo && !b.harness && b.cap <= 512) { freelist[b.size].push_back({b.base, b.cap}); return; }
        host_free(b.base);
#endif
    }

    bool suspended = false; // the harness is preparing state (a very long fill): requests are neither counted nor failed
    bool should_fail(void *addr, size_t size)
    {
        if (suspended) return false;
        uint64_t const idx = req_in_op++;
        ++req_total;
        bool f = false;
        switch (fmode)
        {
        case F_NTH: f = ((int64_t)idx == fk); break;
        case F_FROM: f = ((int64_t)idx >= fk); break;
        case F_BERNOULLI: f = frng.below(bern_den) < bern_num; break;
        default: break;
        }
        char const *cls = classify ? classify(addr, size) : "request";
        if (stats) stats->add(std::string("alloc.requests.") + cls);
        if (f)
        {
            ++fired_in_op; ++fired_total;
            last_fired_site = cls;
            if (stats) stats->add(std::string("fault.alloc_fail.") + cls);
        }
        return f;
    }

    void *request(void *addr, size_t size)
    {
        if (size == 0)
        {
            if (!addr) return nullptr;
            auto it = live.find((uintptr_t)addr);
            if (it == live.end())
            {
                if (freed.count((uintptr_t)addr)) error("double-free", "block #%llu released twice", (unsigned long long)freed[(uintptr_t)addr]);
                else error("foreign-free", "release of an address that is not the start of a live block");
                return nullptr;
            }
            raw_delete(it);
            return nullptr;
        }
        if (should_fail(addr, size)) return nullptr; // old block untouched, exactly like realloc
        if (!addr) return raw_new(size, false);
        auto it = live.find((uintptr_t)addr);
        if (it == live.end())
        {
            if (freed.count((uintptr_t)addr)) error("realloc-after-free", "resize of released block #%llu", (unsigned long long)freed[(uintptr_t)addr]);
            else error("foreign-realloc", "resize of an address that is not the start of a live block");
            return raw_new(size, false);
        }
        Block &b = it->second;
        if (size <= b.size && !always_move)
        { // shrink (or same size) in place
#ifdef SIM_ASAN
            if (size < b.size) SIM_POISON((char *)addr + size, b.size - size);
#else
            memset((char *)addr + size, 0xA5, b.size - size);
#endif
            b.size = size;
            if (stats) stats->add("alloc.realloc_inplace");
            return addr;
        }
#ifdef SIM_ASAN
        if (passthrough && !always_move && !b.harness)
        { // let the library's default allocator do a real realloc
            Block nb = b;
            SIM_UNPOISON(addr, b.cap);
            void *n2 = a_alloc_(addr, size);
            if (!n2)
            { // a real realloc failure of the library's default allocator: the old block must still be intact and live
#ifdef SIM_ASAN
                if (b.cap > b.size) SIM_POISON((char *)addr + b.size, b.cap - b.size);
#endif
                ++real_failures; ++fired_total; ++fired_in_op; last_fired_site = "real_allocator_refused";
                if (stats) stats->add("fault.alloc_fail.real_allocator_refused");
                return nullptr;
            }
            live.erase(it);
            if (n2 != addr && !__asan_address_is_poisoned(addr)) error("default-allocator-did-not-release", "a_alloc_(p, n) moved the block, but the old one is still allocated");
            if (size > nb.size) fill_junk((unsigned char *)n2 + nb.size, size - nb.size);
            nb.size = size; nb.cap = size; nb.base = n2; nb.op = cur_op;
            freed[(uintptr_t)addr] = nb.id; freed.erase((uintptr_t)n2);
            live[(uintptr_t)n2] = nb;
            if (stats) stats->add("alloc.realloc_by_default_allocator");
            return n2;
        }
#endif
        size_t const keep = size < b.size ? size : b.size;
        void *n = raw_new(size, false);
        if (!n) return nullptr; // real refusal: old block untouched
        memcpy(n, addr, keep);
        it = live.find((uintptr_t)addr);
        raw_delete(it);
        if (stats) stats->add("alloc.realloc_moved");
        return n;
    }

    // ---- harness side
    void *halloc(size_t size) { return raw_new(size, true); }
    void hfree(void *p)
    {
        if (!p) return;
        auto it = live.find((uintptr_t)p);
        if (it == live.end()) { fprintf(stderr, "simalloc: harness freed unknown block\n"); abort(); }
        raw_delete(it);
    }
    // transfer ownership of a harness block to "library-visible" (used for a_buf_ctor storage handed to a_buf_setm etc.)
    Block const *block_at(void const *p) const
    {
        auto it = live.find((uintptr_t)p);
        return it == live.end() ? nullptr : &it->second;
    }
    Block const *block_of(void const *p) const
    {
        auto it = live.upper_bound((uintptr_t)p);
        if (it == live.begin()) return nullptr;
        --it;
        if ((uintptr_t)p < it->first + it->second.size || ((uintptr_t)p == it->first && it->second.size == 0)) return &it->second;
        return nullptr;
    }
    uintptr_t block_start(void const *p) const
    {
        auto it = live.upper_bound((uintptr_t)p);
        if (it == live.begin()) return 0;
        --it;
        return it->first;
    }
    bool owns(void const *p, size_t len) const
    {
        if (!p) return false;
        auto it = live.upper_bound((uintptr_t)p);
        if (it == live.begin()) return false;
        --it;
        uintptr_t const s = it->first, e = s + it->second.size;
        return (uintptr_t)p >= s && (uintptr_t)p + len <= e && (uintptr_t)p + len >= (uintptr_t)p;
    }
    // offset of p inside its block and the block id; for logging without addresses
    bool locate(void const *p, uint64_t &id, size_t &off) const
    {
        auto it = live.upper_bound((uintptr_t)p);
        if (it == live.begin()) return false;
        --it;
        if ((uintptr_t)p >= it->first + it->second.size && !((uintptr_t)p == it->first)) return false;
        id = it->second.id; off = (uintptr_t)p - it->first;
        return true;
    }
    void op_begin(int opi) { cur_op = opi; req_in_op = 0; fired_in_op = 0; }
    void set_fault(int mode, int64_t k) { fmode = mode; fk = k; }
    void clear_fault() { fmode = F_NONE; }

    // canaries (plain build only); returns id of the lowest-numbered damaged block or 0
    uint64_t check_guards() const
    {
#ifdef SIM_ASAN
        return 0;
#else
        uint64_t bad = 0;
        for (auto const &kv : live)
        {
            unsigned char const *user = (unsigned char const *)kv.first;
            unsigned char const *base = (unsigned char const *)kv.second.base;
            bool dmg = false;
            for (int i = 0; i < GUARD; ++i) if (base[i] != 0xA5) dmg = true;
            size_t const tail = GUARD + (kv.second.cap - kv.second.size);
            for (size_t i = 0; i < tail; ++i) if (user[kv.second.size + i] != 0xA5) dmg = true;
            if (dmg && (!bad || kv.second.id < bad)) bad = kv.second.id;
        }
        return bad;
#endif
    }
    // leaks: live library-owned blocks; returns count and lowest id
    size_t leaks(uint64_t &lowest_id, size_t &bytes) const
    {
        size_t n = 0; lowest_id = 0; bytes = 0;
        for (auto const &kv : live)
            if (!kv.second.harness) { ++n; bytes += kv.second.size; if (!lowest_id || kv.second.id < lowest_id) lowest_id = kv.second.id; }
        return n;
    }
    size_t live_library_blocks() const { size_t n = 0; for (auto const &kv : live) if (!kv.second.harness) ++n; return n; }

    void reset()
    {
        while (!live.empty()) raw_delete_final(live.begin());
        for (auto &fl : freelist)
            for (auto &pr : fl.second)
            {
#ifdef SIM_ASAN
                SIM_UNPOISON(pr.first, pr.second);
#endif
                host_free(pr.first);
            }
        freelist.clear(); freed.clear();
        next_id = 1; cur_op = -1;
        fmode = F_NONE; fk = 0; req_in_op = req_total = fired_in_op = fired_total = real_failures = 0;
        err_cls.clear(); err_detail.clear(); last_fired_site.clear();
        always_move = false; junk_fill = true; reuse_lifo = false; passthrough = false; suspended = false;
        classify = nullptr;
    }
    void raw_delete_final(std::map<uintptr_t, Block>::iterator it)
    {
        Block b = it->second;
#ifdef SIM_ASAN
        SIM_UNPOISON((void *)it->first, b.cap);
#endif
        live.erase(it);
        host_free(b.base);
    }
    // draw a personality from the run's rng
    void personality(Rng &r, unsigned char seedbyte)
    {
        always_move = r.chance(1, 2);
        junk_fill = r.chance(3, 4);
        reuse_lifo = r.chance(1, 4);
        junk_seed = seedbyte;
    }
};

extern SimAlloc SA;
static inline void *sim_alloc_fn(void *addr, size_t size) { return SA.request(addr, size); }
static inline void install_simalloc() { a_alloc = sim_alloc_fn; }

} // namespace sim
