// Engine `seq`: C04 (vec, buf), C05 (list, slist, que), C06 (str), C07 (allocation-failure enumeration over vec, que, str, buf).
#include "core/core.h"
#include "core/simalloc.h"
#include "core/driver.h"
#include "seq_common.h"
#include "seq_vec.h"
#ifndef SEQ_ONLY_VEC
#include "seq_str.h"
#include "seq_que.h"
#include "seq_list.h"
#endif

namespace sim {

SimAlloc SA;

enum Target { T_VEC = 0, T_BUF = 1, T_STR = 2, T_QUE = 3, T_LIST = 4, T_SLIST = 5 };
static int const OPBASE[] = {0, 0, 100, 200, 300, 400}; // vec and buf share op names


struct SeqEngine : Engine
{
    char const *name() const override { return "seq"; }
    std::vector<std::string> properties() const override { return {"C04", "C05", "C06", "C07"}; }
    char const *op_name(int kind) const override
    {
        if (kind >= 0 && kind < V__COUNT) return VEC_OP_NAMES[kind];
#ifndef SEQ_ONLY_VEC
        if (kind >= 100 && kind < 100 + S__COUNT) return STR_OP_NAMES[kind - 100];
        if (kind >= 200 && kind < 200 + Q__COUNT) return QUE_OP_NAMES[kind - 200];
        if (kind >= 300 && kind < 300 + L__COUNT) return LIST_OP_NAMES[kind - 300];
        if (kind >= 400 && kind < 400 + SL__COUNT) return SLIST_OP_NAMES[kind - 400];
#endif
        return "?";
    }
    int op_kind(std::string const &n) const override
    {
        for (int k = 0; k < V__COUNT; ++k) if (n == VEC_OP_NAMES[k]) return k;
#ifndef SEQ_ONLY_VEC
        for (int k = 0; k < S__COUNT; ++k) if (n == STR_OP_NAMES[k]) return 100 + k;
        for (int k = 0; k < Q__COUNT; ++k) if (n == QUE_OP_NAMES[k]) return 200 + k;
        for (int k = 0; k < L__COUNT; ++k) if (n == LIST_OP_NAMES[k]) return 300 + k;
        for (int k = 0; k < SL__COUNT; ++k) if (n == SLIST_OP_NAMES[k]) return 400 + k;
#endif
        return -1;
    }

    Plan generate(std::string const &prop, uint64_t seed, int tier) override
    {
        Rng r(seed);
        Plan p; p.engine = "seq"; p.prop = prop; p.seed = seed;
        bool const faults = prop == "C07";
        int target;
        if (prop == "C04") target = r.chance(1, 2) ? T_VEC : T_BUF;
        else if (prop == "C05") { uint64_t k = r.below(4); target = k < 2 ? T_QUE : (k == 2 ? T_LIST : T_SLIST); }
        else if (prop == "C06") target = T_STR;
        else { static const int T[] = {T_VEC, T_QUE, T_QUE, T_STR, T_STR, T_BUF}; target = r.pick(T); }
        switch (target)
        {
        case T_VEC: gen_vec_plan(r, p, false, faults, tier); break;
        case T_BUF: gen_vec_plan(r, p, true, faults, tier); break;
#ifndef SEQ_ONLY_VEC
        case T_STR: gen_str_plan(r, p, faults, tier); break;
        case T_QUE: gen_que_plan(r, p, faults, tier); break;
        case T_LIST: gen_list_plan(r, p, tier); break;
        case T_SLIST: gen_slist_plan(r, p, tier); break;
#endif
        default: break;
        }
        p.set("target", target);
        return p;
    }

    Result execute(Plan const &p, Stats &st, FILE *log) override
    {
        Ctx c(st, log);
        g_req_per_op.clear(); g_heavy_plan = false;
        g_cmp_forbid_lo = 0; g_cmp_forbid_len = 0; g_cmp_forbidden_hit = false; g_cmp_key = nullptr; g_cmp_key_on_left = false;
        int const target = (int)p.knob("target", 0);
        // Bernoulli multi-fault configuration
        int64_t const bern = p.knob("bern_permille", 0);
        switch (target)
        {
        case T_VEC: case T_BUF: { VecTarget t(c, target == T_BUF); t.bern_permille = bern; t.bern_seed = p.seed; t.exec(p); break; }
#ifndef SEQ_ONLY_VEC
        case T_STR: { StrTarget t(c); t.bern_permille = bern; t.bern_seed = p.seed; t.exec(p); break; }
        case T_QUE: { QueTarget t(c); t.bern_permille = bern; t.bern_seed = p.seed; t.exec(p); break; }
        case T_LIST: { ListTarget t(c); t.exec(p); break; }
        case T_SLIST: { SlistTarget t(c); t.exec(p); break; }
#endif
        default: c.fail("bad-plan", "-", "unknown target %d", target); break;
        }
        a_alloc = a_alloc_; // leave the library's own allocator installed between runs
        SA.reset();
        return c.result();
    }

    // C07: sampled history, enumerated fault positions
    void run_item(std::string const &prop, uint64_t seed, int tier, Stats &st, Sink &sink) override
    {
        if (prop != "C07") { Engine::run_item(prop, seed, tier, st, sink); return; }
        Plan base = generate(prop, seed, tier);
        sink.about_to_run(base);
        Result r0 = execute(base, st, nullptr);
        std::vector<uint32_t> req = g_req_per_op;
        if (r0.v.hit)
        { // a fault-free failure belongs to C04-C06 (DESIGN.md 7.4); do not report it under C07
            st.add("n.faultfree_history_already_fails");
            Result clean; clean.hash = r0.hash; clean.steps = r0.steps;
            sink.report(base, clean);
            return;
        }
        if (!sink.report(base, r0)) return;
        uint64_t total = 0; for (auto n : req) total += n;
        st.add("n.alloc_requests_in_faultfree_histories", total);
        uint64_t budget = tier ? 1200 : 600;
        if (g_heavy_plan) { budget = 16; st.add("n.heavy_history_enumerated_with_small_budget"); } // each execution repeats a 70 000-element fill
        Rng r(seed ^ 0x5eedfa17ull);
        // op order of the enumeration: as written, except that the op after a long preparation phase comes first (its small
        // budget would otherwise be spent before reaching it)
        std::vector<size_t> order;
        bool const heavy = g_heavy_plan; int const heavy_op = g_heavy_op;
        if (heavy && heavy_op >= 0 && (size_t)heavy_op < req.size()) order.push_back((size_t)heavy_op);
        for (size_t j = 0; j < req.size() && j < base.ops.size(); ++j) if (!(heavy && (int)j == heavy_op)) order.push_back(j);
        for (size_t j : order)
            for (uint32_t k = 0; k < req[j]; ++k)
            {
                if (!budget) { st.add("n.enumeration_truncated_by_budget"); return; }
                --budget;
                Plan p1 = base; p1.ops[j].fk = FK_NTH; p1.ops[j].fa = k;
                sink.about_to_run(p1);
                Result r1 = execute(p1, st, nullptr);
                st.add("n.single_fault_runs");
                if (!sink.report(p1, r1)) return;
                Plan p2 = base; p2.ops[j].fk = FK_FROM; p2.ops[j].fa = k; p2.ops[j].fb = (int64_t)r.below(5);
                sink.about_to_run(p2);
                Result r2 = execute(p2, st, nullptr);
                st.add("n.persistent_fault_runs");
                if (!sink.report(p2, r2)) return;
            }
        // multi-fault runs
        static const int64_t PM[] = {20, 100, 300, 700};
        for (int m = 0; m < 4; ++m)
        {
            Plan p3 = base; p3.set("bern_permille", PM[m]);
            sink.about_to_run(p3);
            Result r3 = execute(p3, st, nullptr);
            st.add("n.bernoulli_fault_runs");
            if (!sink.report(p3, r3)) return;
        }
    }

    bool foreign(Plan const &p) const override
    {
        if (p.prop != "C07") return false;
        if (p.knob("bern_permille", 0) != 0) return false;
        if (p.knob("alloc_default", 0) != 0) return false; // the real default allocator may have refused a request: that is an allocation failure too
        for (auto const &o : p.ops) if (o.fk) return false;
        return true; // a fault-free history that fails is C04-C06's finding
    }
    std::vector<KnobShrink> shrinkable_knobs() const override
    {
        return {{"alloc_move", 0}, {"alloc_reuse", 0}, {"alloc_junk", 0}, {"maxlen", 4}, {"keyspace", 1}, {"cap", 0}, {"zsel", 4}, {"dtor_at_end", 0}, {"two", 0}, {"nodes", 2}};
    }
    std::vector<std::string> components(std::string const &prop) const override
    {
        std::vector<std::string> v;
        if (prop == "C04") v = {"REAL: src/vec.c, src/buf.c, src/a.c (a_copy/a_move/a_swap), inline accessors of include/a/vec.h and include/a/buf.h, libc qsort/bsearch", "STUB: allocator behind a_alloc (ledger, exact sizes, relocation, junk fill, reuse; one run in six passes through to the REAL default allocator a_alloc_ of src/a.c); comparator / destructor / copy callbacks"};
        else if (prop == "C05") v = {"REAL: include/a/list.h, include/a/slist.h (inline, compiled into the harness), src/que.c, include/a/que.h", "STUB: allocator behind a_alloc; list nodes live in harness arenas; comparator callback"};
        else if (prop == "C06") v = {"REAL: src/str.c, a_utf_encode from src/utf.c, libc vsnprintf/memchr/isspace", "STUB: allocator behind a_alloc"};
        else v = {"REAL: src/vec.c, src/que.c, src/str.c, src/buf.c, src/a.c (a_alloc pointer), src/utf.c", "STUB: allocator behind a_alloc with failure injection (n-th request of an operation; all requests from the n-th on until a recovery point; Bernoulli)"};
        return v;
    }
    std::string rule(std::string const &prop) const override
    {
        if (prop == "C07") return "items are seeded operation histories (3-40 ops, a few of them ending in a 70000-element queue whose fill is exempt from injection) over vec/que/str/buf; within each history EVERY allocation request counted in a fault-free execution is failed once alone (with immediate retry) and once persistently until a seeded recovery point, plus four Bernoulli multi-fault executions; evaluations = executions; distinct_nontrivial = HyperLogLog estimate of distinct (container kind, element size, length, spare-capacity class, fault state) abstract states visited";
        return "items are seeded operation histories (functions, typed macro forms and iteration macros of the headers; element sizes 0..4100; lengths up to 700, rare queues of 70000 elements; fill/drain bursts; strings compared with and formatted into multi-GiB zero-page views, formatted texts of up to 6 KiB) executed against the real container and a reference model after every operation, on a simulated allocator (relocating, junk-filling, reusing, or passing through to the library's own a_alloc_); evaluations = histories; distinct_nontrivial = HyperLogLog estimate of distinct abstract states (container kind, element size, length, spare-capacity class, sortedness / terminated flag) visited after an operation";
    }
    std::string level(std::string const &prop) const override { return prop == "C07" ? "fault_enumeration" : "exploration"; }
    std::vector<std::string> assumptions(std::string const &prop) const override
    {
        std::vector<std::string> v = {"sampling, not proof: a clean batch is evidence proportional to the reach numbers in this file", "clang 14 ASan+UBSan build (pointer-overflow and nonnull-attribute checks off, see DESIGN.md 3.6); a sanitizer abort is reported as a violation", "generator preconditions of DESIGN.md section 7 (store counts bounded by the source array; buf setm >= count; sorted-insert only on sorted sequences; non-adjacent element swaps)"};
        if (prop == "C07") v.push_back("histories are sampled; fault positions inside each sampled history are enumerated up to a per-history budget");
        return v;
    }
    uint64_t default_runs(std::string const &prop, int tier) const override
    {
        if (prop == "C07") return tier ? 1200000 : 15000;
        if (prop == "C04") return tier ? 7000000 : 120000;
        return tier ? 16000000 : 250000;
    }
};

Engine *make_engine() { return new SeqEngine(); }

} // namespace sim

int main(int argc, char **argv) { return sim::driver_main(argc, argv); }
