// Engine `tree`: C01 (AVL), C02 (red-black), C03 (iterators and destructive tear-down with interruption).
#include "core/core.h"
#include "core/driver.h"
#include <sys/mman.h>
#include <cstddef>
#include <deque>
#include <map>
#include <climits>
#include <set>
extern "C" {
#include "a/avl.h"
#include "a/rbt.h"
}

namespace sim {

enum TreeOp { T_INSERT, T_INSERT_DUP, T_REMOVE, T_REMOVE_FOUND, T_SEARCH, T_BURST, T_ITER, T_TEAR, T__COUNT };
static char const *const TREE_OP_NAMES[] = {"insert", "insert_dup", "remove", "remove_found", "search", "burst", "iterate", "tear"};

template <class NodeT> struct TEntry { NodeT link; int key; int id; };
static uint64_t g_cmp_calls_tree = 0; // 64-bit: a worker performs billions of comparisons in a thorough batch
static int g_cmp_style = 0; // 0: -1/0/+1   1: key difference   2: huge magnitudes (only the sign is documented)
static inline int cmp_result(int a, int b)
{
    if (a == b) return 0;
    switch (g_cmp_style)
    {
    default: return (a > b) - (a < b);
    case 1: return a - b; // keys are small non-negative integers: no overflow
    case 2: return a > b ? INT_MAX - (a & 1) : INT_MIN + 1 + (b & 1); // never INT_MIN itself: negating a comparator result is common practice
    }
}
template <class NodeT> static int tree_cmp(void const *l, void const *r)
{
    ++g_cmp_calls_tree;
    return cmp_result(((TEntry<NodeT> const *)l)->key, ((TEntry<NodeT> const *)r)->key);
}
// lookup by "specified content": the left operand is the caller's probe, here a bare key - not a node
struct KeyProbe { int key; };
// lookup by a key carried in the pointer value itself ("specified content" is opaque to the library): key 0 is a null ctx
template <class NodeT> static int value_cmp(void const *value, void const *node)
{
    ++g_cmp_calls_tree;
    return cmp_result((int)(intptr_t)value, ((TEntry<NodeT> const *)node)->key);
}
template <class NodeT> static int probe_cmp(void const *probe, void const *node)
{
    ++g_cmp_calls_tree;
    return cmp_result(((KeyProbe const *)probe)->key, ((TEntry<NodeT> const *)node)->key);
}

struct AvlTraits
{
    typedef a_avl_node Node; typedef a_avl Root;
    static char const *pfx() { return "a_avl_"; }
    static constexpr bool is_avl() { return true; }
    static Node *parent(Node const *n) { return a_avl_parent(n); }
#if defined(A_SIZE_POINTER) && (A_SIZE_POINTER + 0 > 3)
    static int tag(Node const *n) { return (int)(n->parent_ & 3); } // factor+1
#else /* fallback node layout: separate parent pointer and balance factor */
    static int tag(Node const *n) { return n->factor + 1; }
#endif
    static void root_init(Root *r) { a_avl_root(r); }
    static Node *insert(Root *r, Node *n) { return a_avl_insert(r, n, tree_cmp<Node>); }
    static void remove(Root *r, Node *n) { a_avl_remove(r, n); }
    static Node *init(Node *n, Node *par) { return a_avl_init(n, par); }
    static void insert_adjust(Root *r, Node *n) { a_avl_insert_adjust(r, n); }
    static Node *search(Root const *r, void const *k) { return a_avl_search(r, k, tree_cmp<Node>); }
    static Node *search_probe(Root const *r, KeyProbe const *k) { return a_avl_search(r, k, probe_cmp<Node>); }
    static Node *search_value(Root const *r, int key) { return a_avl_search(r, (void const *)(intptr_t)key, value_cmp<Node>); }
    static Node *head(Root const *r) { return a_avl_head(r); }
    static Node *tail(Root const *r) { return a_avl_tail(r); }
    static Node *next(Node *n) { return a_avl_next(n); }
    static Node *prev(Node *n) { return a_avl_prev(n); }
    static Node *pre_next(Node *n) { return a_avl_pre_next(n); }
    static Node *pre_prev(Node *n) { return a_avl_pre_prev(n); }
    static Node *post_head(Root const *r) { return a_avl_post_head(r); }
    static Node *post_tail(Root const *r) { return a_avl_post_tail(r); }
    static Node *post_next(Node *n) { return a_avl_post_next(n); }
    static Node *post_prev(Node *n) { return a_avl_post_prev(n); }
    static Node *tear(Root *r, Node **nx) { return a_avl_tear(r, nx); }
};
struct RbtTraits
{
    typedef a_rbt_node Node; typedef a_rbt Root;
    static char const *pfx() { return "a_rbt_"; }
    static constexpr bool is_avl() { return false; }
    static Node *parent(Node const *n) { return a_rbt_parent(n); }
#if defined(A_SIZE_POINTER) && (A_SIZE_POINTER + 0 > 1)
    static int tag(Node const *n) { return (int)(n->parent_ & 1); } // 0 red, 1 black
#else /* fallback node layout: separate parent pointer and colour */
    static int tag(Node const *n) { return (int)(n->color & 1); }
#endif
    static void root_init(Root *r) { a_rbt_root(r); }
    static Node *insert(Root *r, Node *n) { return a_rbt_insert(r, n, tree_cmp<Node>); }
    static void remove(Root *r, Node *n) { a_rbt_remove(r, n); }
    static Node *init(Node *n, Node *par) { return a_rbt_init(n, par); }
    static void insert_adjust(Root *r, Node *n) { a_rbt_insert_adjust(r, n); }
    static Node *search(Root const *r, void const *k) { return a_rbt_search(r, k, tree_cmp<Node>); }
    static Node *search_probe(Root const *r, KeyProbe const *k) { return a_rbt_search(r, k, probe_cmp<Node>); }
    static Node *search_value(Root const *r, int key) { return a_rbt_search(r, (void const *)(intptr_t)key, value_cmp<Node>); }
    static Node *head(Root const *r) { return a_rbt_head(r); }
    static Node *tail(Root const *r) { return a_rbt_tail(r); }
    static Node *next(Node *n) { return a_rbt_next(n); }
    static Node *prev(Node *n) { return a_rbt_prev(n); }
    static Node *pre_next(Node *n) { return a_rbt_pre_next(n); }
    static Node *pre_prev(Node *n) { return a_rbt_pre_prev(n); }
    static Node *post_head(Root const *r) { return a_rbt_post_head(r); }
    static Node *post_tail(Root const *r) { return a_rbt_post_tail(r); }
    static Node *post_next(Node *n) { return a_rbt_post_next(n); }
    static Node *post_prev(Node *n) { return a_rbt_post_prev(n); }
    static Node *tear(Root *r, Node **nx) { return a_rbt_tear(r, nx); }
};

template <class T> struct TreeSim
{
    typedef typename T::Node Node;
    typedef TEntry<Node> Entry;
    Ctx &c;
    std::string prop;
    bool iter_prop;       // C03: structural failures are a precondition failure, not a violation
    bool struct_prop;     // C01/C02
    Entry *pool = nullptr; size_t N = 0;
    typename T::Root root;
    std::vector<char> resident;
    std::vector<uint64_t> inserted_at; // insertion sequence number for "remove in insertion order"
    uint64_t ins_seq = 0;
    std::map<int, int> model; // key -> id
    int nclients = 1;
    int U = 16;
    bool precond_failed = false;
    size_t check_every = 1, check_tick = 0; // big-tree runs: the O(n) structural walk runs on every k-th operation

    TreeSim(Ctx &c_, std::string const &p) : c(c_), prop(p), iter_prop(p == "C03"), struct_prop(p != "C03") {}
    ~TreeSim()
    {
        if (pool) { SIM_UNPOISON(pool, sizeof(Entry) * N); if (map_base) munmap(map_base, map_len); else free(pool); }
    }
    void *map_base = nullptr; size_t map_len = 0;
    std::string nm(char const *f) const { return std::string(T::pfx()) + f; }
    int id_of(Node const *p) const
    {
        uintptr_t a = (uintptr_t)p, b = (uintptr_t)pool;
        if (a < b || a >= b + sizeof(Entry) * N || (a - b) % sizeof(Entry)) return -1;
        return (int)((a - b) / sizeof(Entry));
    }
    Node *nd(int id) { return &pool[id].link; }
    void poison(int id)
    {
#ifdef SIM_ASAN
        SIM_POISON(&pool[id].link, sizeof(Node));
#else
        memset(&pool[id].link, 0xDD, sizeof(Node));
#endif
    }
    void unpoison(int id)
    {
        SIM_UNPOISON(&pool[id].link, sizeof(Node));
        memset(&pool[id].link, 0xCD, sizeof(Node)); // junk: insert must initialise the node itself
    }

    // ------------------------------------------------------------ structural invariants (C01 / C02)
    struct Walk { size_t count = 0; bool ok = true; uint64_t shape = FNV0; int maxdepth = 0; };
    // returns height (AVL) or black height (RBT); -1000 on failure (c.fail already called unless quiet)
    int walk(Node *n, Node *par, long lo, long hi, Walk &w, char const *site, int depth, bool quiet)
    {
        if (!n) { w.shape = fnv_mix(w.shape, 0); return T::is_avl() ? 0 : 1; }
        int const id = id_of(n);
        auto bad = [&](char const *cls, char const *fmt, long a, long b) { w.ok = false; if (!quiet) c.fail(cls, site, fmt, a, b); return -1000; };
        if (id < 0) return bad("link-outside-node-pool", "a child link of node %ld points outside the node pool (%ld)", par ? (long)id_of(par) : -1L, 0L);
        if (!resident[(size_t)id]) return bad("link-to-removed-node", "node %ld is reachable from the root but was removed (parent %ld)", (long)id, par ? (long)id_of(par) : -1L);
        if (depth > w.maxdepth) w.maxdepth = depth;
        if (++w.count > N || depth > 200) return bad("cycle-in-tree", "walk visited more nodes than exist (%ld) or depth %ld", (long)w.count, (long)depth);
        if (T::parent(n) != par) return bad("parent-link-wrong", "node %ld: parent link does not point to the node whose child it is (%ld)", (long)id, par ? (long)id_of(par) : -1L);
        long const k = pool[id].key;
        if (k <= lo || k >= hi) return bad("order-violated", "node %ld with key %ld is outside the key range its position allows", (long)id, k);
        w.shape = fnv_mix(w.shape, 1 + (uint64_t)T::tag(n));
        int const hl = walk(n->left, n, lo, k, w, site, depth + 1, quiet); if (!w.ok) return -1000;
        int const hr = walk(n->right, n, k, hi, w, site, depth + 1, quiet); if (!w.ok) return -1000;
        if (T::is_avl())
        {
            int const tg = T::tag(n);
            if (hr - hl > 1 || hl - hr > 1) return bad("height-imbalance", "node %ld: subtree heights differ by %ld", (long)id, (long)(hr - hl));
            if (tg == 3) return bad("factor-undefined", "node %ld: stored balance bits are 11 (%ld)", (long)id, 3L);
            if (tg - 1 != hr - hl) return bad("factor-wrong", "node %ld: stored balance factor %ld differs from the height difference", (long)id, (long)(tg - 1));
            return 1 + (hl > hr ? hl : hr);
        }
        int const col = T::tag(n);
        if (col == 0)
        {
            if (n->left && T::tag(n->left) == 0) return bad("red-red", "red node %ld has a red left child (%ld)", (long)id, (long)id_of(n->left));
            if (n->right && T::tag(n->right) == 0) return bad("red-red", "red node %ld has a red right child (%ld)", (long)id, (long)id_of(n->right));
        }
        if (hl != hr) return bad("black-height-mismatch", "node %ld: black heights of the two subtrees differ (%ld)", (long)id, (long)(hl - hr));
        return hl + col;
    }
    // full check; returns false when the run must stop (violation or precondition failure)
    bool check_struct(char const *site, bool force = false)
    {
        if (!force && check_every > 1 && (++check_tick % check_every) != 0) return true;
        Walk w;
        bool const quiet = iter_prop;
        walk(root.node, nullptr, LONG_MIN, LONG_MAX, w, site, 0, quiet);
        if (w.ok && !T::is_avl() && root.node && T::tag(root.node) == 0) { w.ok = false; if (!quiet) c.fail("root-not-black", site, "the root (node %d) is red", id_of(root.node)); }
        if (w.ok && w.count != model.size()) { w.ok = false; if (!quiet) c.fail("element-set-mismatch", site, "%zu nodes reachable from the root, %zu elements inserted and not removed", w.count, model.size()); }
        if (w.ok)
        { // identity: every model element reachable (count equal + all reachable resident + keys unique => same set)
            c.st.state(w.shape);
            if (w.maxdepth >= 16) c.st.add("probe.tree_depth_17_or_more");
            return true;
        }
        if (quiet) { precond_failed = true; c.st.add("n.precondition_failed_malformed_tree"); }
        return false;
    }
    uint64_t struct_hash()
    { // hash over every resident node's three link fields, for "duplicate insert changes nothing"
        uint64_t h = FNV0;
        if (check_every > 1) return fnv_mix(h, (uint64_t)id_of(root.node) + 2); // big-tree run: the next full walk decides
        for (size_t i = 0; i < N; ++i) if (resident[i]) { h = fnv_mix(h, (uint64_t)id_of(pool[i].link.left) + 2); h = fnv_mix(h, (uint64_t)id_of(pool[i].link.right) + 2); h = fnv_mix(h, (uint64_t)T::tag(&pool[i].link)); h = fnv_mix(h, (uint64_t)id_of(T::parent(&pool[i].link)) + 2); }
        h = fnv_mix(h, (uint64_t)id_of(root.node) + 2);
        return h;
    }

    // ------------------------------------------------------------ primitive operations with the model
    // per-client free / resident lists with O(1) removal (the pools can hold tens of thousands of nodes)
    std::vector<std::vector<int>> freel, resl;
    std::vector<int> lpos; // position of a node inside the list it is currently on
    void list_init()
    {
        freel.assign((size_t)nclients, {}); resl.assign((size_t)nclients, {}); lpos.assign(N, 0);
        for (size_t i = 0; i < N; ++i) { auto &f = freel[i % (size_t)nclients]; lpos[i] = (int)f.size(); f.push_back((int)i); }
    }
    void list_move(int id, bool to_resident)
    {
        size_t const cl = (size_t)id % (size_t)nclients;
        auto &from = to_resident ? freel[cl] : resl[cl]; auto &to = to_resident ? resl[cl] : freel[cl];
        int const p = lpos[(size_t)id], last = from.back();
        from[(size_t)p] = last; lpos[(size_t)last] = p; from.pop_back();
        lpos[(size_t)id] = (int)to.size(); to.push_back(id);
    }
    int free_node(int client, uint64_t start)
    {
        for (int k = 0; k < nclients; ++k)
        {
            auto &f = freel[(size_t)((client + k) % nclients)];
            if (!f.empty()) return f[(size_t)(start % f.size())];
        }
        return -1;
    }
    int resident_node(int client, uint64_t sel)
    {
        for (int k = 0; k < nclients; ++k)
        {
            auto &f = resl[(size_t)((client + k) % nclients)];
            if (!f.empty()) return f[(size_t)(sel % f.size())];
        }
        return -1;
    }
    bool do_insert(int client, uint64_t pick, int key)
    {
        int const id = free_node(client, pick);
        if (id < 0) return true;
        unpoison(id);
        pool[id].key = key; pool[id].id = id;
        auto it = model.find(key);
        uint64_t const before = it != model.end() ? struct_hash() : 0;
        std::string const name = nm("insert");
        c.site(name.c_str());
        Node *r;
        if (it == model.end() && (pick & 3) == 3)
        { // the other documented way in: the caller descends and links the node, then asks for rebalancing
            Node *par = nullptr, **link = &root.node;
            while (*link) { par = *link; link = key < pool[id_of(par)].key ? &par->left : &par->right; }
            c.site(nm("insert_adjust").c_str());
            *link = T::init(nd(id), par);
            T::insert_adjust(&root, nd(id));
            r = nullptr;
            c.st.add("probe.manual_link_then_insert_adjust");
        }
        else r = T::insert(&root, nd(id));
        if (it != model.end())
        {
            c.st.add("probe.duplicate_insert");
            poison(id);
            if (struct_prop)
            {
                if (r != nd(it->second)) return c.fail("duplicate-insert-wrong-result", name.c_str(), "inserting a second element with key %d returned %s instead of the resident element", key, r ? "another node" : "NULL");
                if (struct_hash() != before) return c.fail("duplicate-insert-changed-tree", name.c_str(), "inserting a duplicate of key %d modified the tree", key);
            }
            else if (r != nd(it->second)) { precond_failed = true; return false; }
            return check_struct(name.c_str());
        }
        if (r != nullptr)
        {
            if (struct_prop) return c.fail("insert-rejected-new-key", name.c_str(), "inserting the absent key %d returned a node instead of NULL", key);
            precond_failed = true; return false;
        }
        resident[(size_t)id] = 1; inserted_at[(size_t)id] = ++ins_seq; model[key] = id; list_move(id, true);
        c.obs(1); c.obs((uint64_t)key);
        return check_struct(name.c_str());
    }
    bool do_remove_id(int id)
    {
        std::string const name = nm("remove");
        if (root.node == nd(id)) c.st.add("probe.remove_root");
        if (pool[id].link.left && pool[id].link.right) c.st.add("probe.remove_two_children");
        else if (!pool[id].link.left && !pool[id].link.right) c.st.add("probe.remove_leaf");
        c.site(name.c_str());
        T::remove(&root, nd(id));
        resident[(size_t)id] = 0; model.erase(pool[id].key); list_move(id, false);
        poison(id);
        c.obs(2); c.obs((uint64_t)pool[id].key);
        return check_struct(name.c_str());
    }
    bool do_search(int key, int probe_style = 0)
    {
        bool const bare_key_probe = probe_style == 1;
        Entry probe; memset(&probe, 0, sizeof probe); probe.key = key; probe.id = -1;
        std::string const name = nm("search");
        c.site(name.c_str());
        Node *r;
        if (bare_key_probe)
        { // the probe lives in an exact-size block: treating it as a node reads past it
            KeyProbe *kp = (KeyProbe *)malloc(sizeof(KeyProbe)); kp->key = key;
            r = T::search_probe(&root, kp);
            free(kp);
            c.st.add("probe.search_with_bare_key_probe");
        }
        else if (probe_style == 2 && key >= 0) { r = T::search_value(&root, key); c.st.add(key == 0 ? "probe.search_with_null_ctx" : "probe.search_with_key_in_pointer"); }
        else r = T::search(&root, &probe);
        auto it = model.find(key);
        c.st.add(it != model.end() ? "probe.search_present" : "probe.search_absent");
        if (struct_prop)
        {
            if (it == model.end() && r) return c.fail("lookup-found-absent", name.c_str(), "key %d is not in the tree but lookup returned a node", key);
            if (it != model.end() && r != nd(it->second)) return c.fail("lookup-missed-present", name.c_str(), "key %d is in the tree but lookup returned %s", key, r ? "a different node" : "NULL");
        }
        c.obs(3); c.obs(r != nullptr);
        return true;
    }

    // ------------------------------------------------------------ C03: reference traversals and iterator checks
    void ref_walk(Node *n, std::vector<int> &in, std::vector<int> &nlr, std::vector<int> &lrn, std::vector<int> &nrl, std::vector<int> &rln)
    {
        struct R
        {
            TreeSim *s;
            void in_(Node *n, std::vector<int> &v) { if (!n) return; in_(n->left, v); v.push_back(s->id_of(n)); in_(n->right, v); }
            void nlr_(Node *n, std::vector<int> &v) { if (!n) return; v.push_back(s->id_of(n)); nlr_(n->left, v); nlr_(n->right, v); }
            void lrn_(Node *n, std::vector<int> &v) { if (!n) return; lrn_(n->left, v); lrn_(n->right, v); v.push_back(s->id_of(n)); }
            void nrl_(Node *n, std::vector<int> &v) { if (!n) return; v.push_back(s->id_of(n)); nrl_(n->right, v); nrl_(n->left, v); }
            void rln_(Node *n, std::vector<int> &v) { if (!n) return; rln_(n->right, v); rln_(n->left, v); v.push_back(s->id_of(n)); }
        } r{this};
        r.in_(n, in); r.nlr_(n, nlr); r.lrn_(n, lrn); r.nrl_(n, nrl); r.rln_(n, rln);
    }
    bool same(std::vector<int> const &got, std::vector<int> const &want, char const *cls, char const *site, char const *what)
    {
        if (got == want) return true;
        size_t i = 0; while (i < got.size() && i < want.size() && got[i] == want[i]) ++i;
        return c.fail(cls, site, "%s: yielded %zu nodes, reference has %zu; first difference at position %zu", what, got.size(), want.size(), i);
    }
    bool do_iterate()
    {
        if (!iter_prop) return true;
        if (!check_struct("precondition", true)) return false;
        std::vector<int> in, nlr, lrn, nrl, rln, got;
        ref_walk(root.node, in, nlr, lrn, nrl, rln);
        size_t const n = in.size(), lim = n + 2;
        typename T::Root *rt = &root;
        std::vector<int> rin(in.rbegin(), in.rend());
        c.st.add("probe.iterator_sweeps");
        if (n == 0) c.st.add("probe.iterate_empty_tree");
#define COLLECT(EXPR_LOOP) do { got.clear(); EXPR_LOOP { got.push_back(id_of(cur)); if (got.size() > lim) break; } } while (0)
        if constexpr (T::is_avl())
        {
            a_avl *r = (a_avl *)rt; a_avl_node *cur;
            c.site("a_avl_foreach"); COLLECT(a_avl_foreach(cur, r)); if (!same(got, in, "inorder-iteration-wrong", "a_avl_foreach", "in-order iteration")) return false;
            COLLECT(A_AVL_FOREACH(cur, r)); if (!same(got, in, "inorder-iteration-wrong", "A_AVL_FOREACH", "in-order iteration")) return false;
            c.site("a_avl_foreach_reverse"); COLLECT(a_avl_foreach_reverse(cur, r)); if (!same(got, rin, "reverse-iteration-wrong", "a_avl_foreach_reverse", "reverse in-order iteration")) return false;
            COLLECT(A_AVL_FOREACH_REVERSE(cur, r)); if (!same(got, rin, "reverse-iteration-wrong", "A_AVL_FOREACH_REVERSE", "reverse in-order iteration")) return false;
            c.site("a_avl_pre_foreach"); COLLECT(a_avl_pre_foreach(cur, r)); if (!same(got, nlr, "preorder-iteration-wrong", "a_avl_pre_foreach", "pre-order (root-left-right)")) return false;
            COLLECT(A_AVL_PRE_FOREACH(cur, r)); if (!same(got, nlr, "preorder-iteration-wrong", "A_AVL_PRE_FOREACH", "pre-order (root-left-right)")) return false;
            c.site("a_avl_pre_foreach_reverse"); COLLECT(a_avl_pre_foreach_reverse(cur, r)); if (!same(got, nrl, "preorder-reverse-iteration-wrong", "a_avl_pre_foreach_reverse", "mirrored pre-order (root-right-left)")) return false;
            COLLECT(A_AVL_PRE_FOREACH_REVERSE(cur, r)); if (!same(got, nrl, "preorder-reverse-iteration-wrong", "A_AVL_PRE_FOREACH_REVERSE", "mirrored pre-order (root-right-left)")) return false;
            c.site("a_avl_post_foreach"); COLLECT(a_avl_post_foreach(cur, r)); if (!same(got, lrn, "postorder-iteration-wrong", "a_avl_post_foreach", "post-order (left-right-root)")) return false;
            COLLECT(A_AVL_POST_FOREACH(cur, r)); if (!same(got, lrn, "postorder-iteration-wrong", "A_AVL_POST_FOREACH", "post-order (left-right-root)")) return false;
            c.site("a_avl_post_foreach_reverse"); COLLECT(a_avl_post_foreach_reverse(cur, r)); if (!same(got, rln, "postorder-reverse-iteration-wrong", "a_avl_post_foreach_reverse", "mirrored post-order (right-left-root)")) return false;
            COLLECT(A_AVL_POST_FOREACH_REVERSE(cur, r)); if (!same(got, rln, "postorder-reverse-iteration-wrong", "A_AVL_POST_FOREACH_REVERSE", "mirrored post-order (right-left-root)")) return false;
        }
        else
        {
            a_rbt *r = (a_rbt *)rt; a_rbt_node *cur;
            c.site("a_rbt_foreach"); COLLECT(a_rbt_foreach(cur, r)); if (!same(got, in, "inorder-iteration-wrong", "a_rbt_foreach", "in-order iteration")) return false;
            COLLECT(A_RBT_FOREACH(cur, r)); if (!same(got, in, "inorder-iteration-wrong", "A_RBT_FOREACH", "in-order iteration")) return false;
            c.site("a_rbt_foreach_reverse"); COLLECT(a_rbt_foreach_reverse(cur, r)); if (!same(got, rin, "reverse-iteration-wrong", "a_rbt_foreach_reverse", "reverse in-order iteration")) return false;
            COLLECT(A_RBT_FOREACH_REVERSE(cur, r)); if (!same(got, rin, "reverse-iteration-wrong", "A_RBT_FOREACH_REVERSE", "reverse in-order iteration")) return false;
            c.site("a_rbt_pre_foreach"); COLLECT(a_rbt_pre_foreach(cur, r)); if (!same(got, nlr, "preorder-iteration-wrong", "a_rbt_pre_foreach", "pre-order (root-left-right)")) return false;
            COLLECT(A_RBT_PRE_FOREACH(cur, r)); if (!same(got, nlr, "preorder-iteration-wrong", "A_RBT_PRE_FOREACH", "pre-order (root-left-right)")) return false;
            c.site("a_rbt_pre_foreach_reverse"); COLLECT(a_rbt_pre_foreach_reverse(cur, r)); if (!same(got, nrl, "preorder-reverse-iteration-wrong", "a_rbt_pre_foreach_reverse", "mirrored pre-order (root-right-left)")) return false;
            COLLECT(A_RBT_PRE_FOREACH_REVERSE(cur, r)); if (!same(got, nrl, "preorder-reverse-iteration-wrong", "A_RBT_PRE_FOREACH_REVERSE", "mirrored pre-order (root-right-left)")) return false;
            c.site("a_rbt_post_foreach"); COLLECT(a_rbt_post_foreach(cur, r)); if (!same(got, lrn, "postorder-iteration-wrong", "a_rbt_post_foreach", "post-order (left-right-root)")) return false;
            COLLECT(A_RBT_POST_FOREACH(cur, r)); if (!same(got, lrn, "postorder-iteration-wrong", "A_RBT_POST_FOREACH", "post-order (left-right-root)")) return false;
            c.site("a_rbt_post_foreach_reverse"); COLLECT(a_rbt_post_foreach_reverse(cur, r)); if (!same(got, rln, "postorder-reverse-iteration-wrong", "a_rbt_post_foreach_reverse", "mirrored post-order (right-left-root)")) return false;
            COLLECT(A_RBT_POST_FOREACH_REVERSE(cur, r)); if (!same(got, rln, "postorder-reverse-iteration-wrong", "A_RBT_POST_FOREACH_REVERSE", "mirrored post-order (right-left-root)")) return false;
        }
#undef COLLECT
        // successor / predecessor are mutually inverse, from every starting node
        std::string const sn = nm("next"), sp = nm("prev");
        for (size_t i = 0; i < n; ++i)
        {
            Node *x = nd(in[i]);
            c.site(sn.c_str());
            Node *nx = T::next(x);
            c.site(sp.c_str());
            Node *pv = T::prev(x);
            if (i + 1 < n ? nx != nd(in[i + 1]) : nx != nullptr) return c.fail("successor-wrong", sn.c_str(), "successor of the %zu-th of %zu elements is wrong", i, n);
            if (i > 0 ? pv != nd(in[i - 1]) : pv != nullptr) return c.fail("predecessor-wrong", sp.c_str(), "predecessor of the %zu-th of %zu elements is wrong", i, n);
            if (nx && T::prev(nx) != x) return c.fail("successor-predecessor-not-inverse", sp.c_str(), "prev(next(x)) != x at the %zu-th element", i);
            if (pv && T::next(pv) != x) return c.fail("successor-predecessor-not-inverse", sn.c_str(), "next(prev(x)) != x at the %zu-th element", i);
        }
        c.obs(4); c.obs(n);
        for (int id : nlr) c.obs((uint64_t)pool[id].key);
        return true;
    }

    // ------------------------------------------------------------ C03: tear-down with interruption
    bool do_tear(Op const &o)
    {
        std::string const name = nm("tear");
        if (iter_prop && !check_struct("precondition", true)) return false;
        size_t const n = model.size();
        // snapshot of the children of every node at tear start (reference structure)
        std::vector<int> lc(N, -1), rc(N, -1);
        std::vector<int> in, nlr, lrn, nrl, rln;
        ref_walk(root.node, in, nlr, lrn, nrl, rln);
        for (int id : in) { lc[(size_t)id] = id_of(pool[id].link.left); rc[(size_t)id] = id_of(pool[id].link.right); }
        std::vector<char> yielded(N, 0);
        size_t done = 0;
        Node *next = nullptr;
        // interruption points
        size_t cuts[3]; int ncuts = (int)((uint64_t)(o.a[3] < 0 ? -o.a[3] : o.a[3]) % 4);
        for (int k = 0; k < 3; ++k) cuts[k] = (size_t)((uint64_t)(o.a[k] < 0 ? -o.a[k] : o.a[k]) % (n + 1));
        std::sort(cuts, cuts + 3);
        int cut_i = 3 - ncuts; if (cut_i < 0) cut_i = 0;
        bool const from_scratch = ((o.a[3] >> 3) & 1) != 0;
        int const style = (int)(((uint64_t)(o.a[3] < 0 ? -o.a[3] : o.a[3]) >> 6) % 6); // 0-2: function calls, 3: lower-case macro, 4: upper-case macro, 5: cursor aliased to the root pointer
        if (style >= 3)
        { // the loop macros of the headers (left early with `break` at each interruption and entered again), or
          // the cursor-less idiom `while ((cur = tear(&root, &root.node)))` which the shipped code supports
            c.st.add(style == 3 ? "probe.tear_lower_case_macro" : style == 4 ? "probe.tear_upper_case_macro" : "probe.tear_cursor_aliased_to_root");
            bool failed = false;
            auto visit = [&](Node *cur) -> bool { // returns false to stop
                int const id = id_of(cur);
                if (iter_prop)
                {
                    if (id < 0 || !resident[(size_t)id]) { c.fail("tear-yielded-foreign-node", name.c_str(), "tear-down handed out something that is not an element of the tree"); failed = true; return false; }
                    if (yielded[(size_t)id]) { c.fail("tear-yielded-twice", name.c_str(), "node %d handed out a second time", id); failed = true; return false; }
                    if ((lc[(size_t)id] >= 0 && !yielded[(size_t)lc[(size_t)id]]) || (rc[(size_t)id] >= 0 && !yielded[(size_t)rc[(size_t)id]])) { c.fail("tear-parent-before-child", name.c_str(), "node %d handed out before one of its children", id); failed = true; return false; }
                }
                else if (id < 0 || yielded[(size_t)id]) { failed = true; return false; }
                yielded[(size_t)id] = 1; ++done; poison(id);
                return done <= n + 1;
            };
            if (style == 5)
            {
                c.site(name.c_str());
                Node *cur; size_t guard = 0;
                while ((cur = T::tear(&root, &root.node)) != nullptr) { if (!visit(cur)) break; if (++guard > n + 2) break; }
            }
            else
            {
                for (int round = 0; round < 5 && !failed; ++round)
                {
                    size_t const stop_at = cut_i < 3 ? cuts[cut_i] : n + 1; // leave the loop early when this many have been handed out
                    if (cut_i < 3) ++cut_i;
                    bool left_early = false;
                    c.site(name.c_str());
                    if constexpr (T::is_avl())
                    {
                        a_avl *rt = (a_avl *)&root;
                        if (style == 3) { a_avl_fortear(cur, nx, rt) { if (!visit(cur)) break; if (done >= stop_at) { left_early = true; break; } } }
                        else { a_avl_node *cur, *nx; A_AVL_FORTEAR(cur, nx, rt) { if (!visit(cur)) break; if (done >= stop_at) { left_early = true; break; } } }
                    }
                    else
                    {
                        a_rbt *rt = (a_rbt *)&root;
                        if (style == 3) { a_rbt_fortear(cur, nx, rt) { if (!visit(cur)) break; if (done >= stop_at) { left_early = true; break; } } }
                        else { a_rbt_node *cur, *nx; A_RBT_FORTEAR(cur, nx, rt) { if (!visit(cur)) break; if (done >= stop_at) { left_early = true; break; } } }
                    }
                    if (!left_early) break;
                }
            }
            if (failed && c.ok() && !iter_prop) {}
            if (!c.ok()) return false;
            if (iter_prop && style == 5)
            {
                if (done != n) return c.fail("tear-incomplete", name.c_str(), "tear-down with the cursor aliased to the root pointer ended after handing out %zu of %zu elements", done, n);
                if (root.node != nullptr) return c.fail("tear-left-root", name.c_str(), "the root still references a node after tear-down");
            }
            if (iter_prop && style != 5)
            {
                // every element that has not reached the body must still be reachable for a later tear-down: finish with the function form
                Node *nx2 = nullptr, *cur2; size_t guard = 0;
                c.site(name.c_str());
                while ((cur2 = T::tear(&root, &nx2)) != nullptr) { if (!visit(cur2)) break; if (++guard > n + 2) break; }
                if (!c.ok()) return false;
                if (done != n) return c.fail("tear-incomplete", name.c_str(), "after leaving the tear-down macro loop early and tearing down again, %zu of %zu elements were handed out", done, n);
                if (root.node != nullptr) return c.fail("tear-left-root", name.c_str(), "the root still references a node after tear-down");
            }
            T::root_init(&root);
            for (size_t i = 0; i < N; ++i) if (resident[i]) { resident[i] = 0; if (!yielded[i]) poison((int)i); }
            model.clear();
            list_init();
            return true;
        }
        // documented entry point: "next: input starting node; if null, root node" - start (and optionally resume) at a seeded element
        bool const start_at_node = ((o.a[3] >> 4) & 1) != 0, resume_at_node = ((o.a[3] >> 5) & 1) != 0;
        auto pick_remaining = [&](uint64_t sel) -> Node * {
            std::vector<int> rem; for (int id : in) if (!yielded[(size_t)id]) rem.push_back(id);
            return rem.empty() ? nullptr : nd(rem[(size_t)(sel % rem.size())]);
        };
        if (start_at_node && n) { next = pick_remaining((uint64_t)(o.a[0] < 0 ? -o.a[0] : o.a[0]) / 7); c.st.add("probe.tear_started_at_arbitrary_node"); }
        c.st.add(ncuts ? "fault.tear_interrupted" : "probe.tear_uninterrupted", ncuts ? (uint64_t)ncuts : 1);
        for (;;)
        {
            // interruption: the observer inspects what is left
            while (cut_i < 3 && done == cuts[cut_i])
            {
                ++cut_i;
                if (iter_prop && !observe_remaining(yielded, n - done, name.c_str())) return false;
                if (resume_at_node && done < n) { next = pick_remaining((uint64_t)(o.a[1] < 0 ? -o.a[1] : o.a[1]) / 3 + done); c.st.add("probe.tear_resumed_at_arbitrary_node"); }
                else if (from_scratch) { next = nullptr; c.st.add("probe.tear_resumed_from_scratch"); }
                else c.st.add("probe.tear_resumed_with_cursor");
            }
            c.site(name.c_str());
            Node *cur = T::tear(&root, &next);
            if (!cur) break;
            int const id = id_of(cur);
            if (iter_prop)
            {
                if (id < 0 || !resident[(size_t)id]) return c.fail("tear-yielded-foreign-node", name.c_str(), "tear-down handed out something that is not an element of the tree");
                if (yielded[(size_t)id]) return c.fail("tear-yielded-twice", name.c_str(), "node %d handed out a second time", id);
                if ((lc[(size_t)id] >= 0 && !yielded[(size_t)lc[(size_t)id]]) || (rc[(size_t)id] >= 0 && !yielded[(size_t)rc[(size_t)id]]))
                    return c.fail("tear-parent-before-child", name.c_str(), "node %d handed out before one of its children", id);
            }
            else if (id < 0 || yielded[(size_t)id]) { break; }
            yielded[(size_t)id] = 1; ++done;
            poison(id); // freed to the simulator at once: any later read by the library is a hard failure
            c.obs(5); c.obs((uint64_t)pool[id].key);
            if (done > n + 1) return iter_prop ? c.fail("tear-does-not-terminate", name.c_str(), "more yields than elements") : false;
        }
        if (iter_prop)
        {
            if (done != n) return c.fail("tear-incomplete", name.c_str(), "tear-down ended after handing out %zu of %zu elements", done, n);
            if (root.node != nullptr) return c.fail("tear-left-root", name.c_str(), "the root still references a node after tear-down");
        }
        // everything is free again
        T::root_init(&root);
        for (size_t i = 0; i < N; ++i) if (resident[i]) { resident[i] = 0; if (!yielded[i]) poison((int)i); }
        model.clear();
        list_init();
        return true;
    }
    bool observe_remaining(std::vector<char> const &yielded, size_t expect, char const *site)
    {
        // nodes reachable from the root through child links must be exactly the not-yet-yielded ones
        std::vector<Node *> stack; size_t seen = 0;
        if (root.node) stack.push_back(root.node);
        while (!stack.empty())
        {
            Node *x = stack.back(); stack.pop_back();
            int id = id_of(x);
            if (id < 0 || !resident[(size_t)id]) return c.fail("tear-remaining-structure-broken", site, "after an interrupted tear-down a link leads outside the element set");
            if (yielded[(size_t)id]) return c.fail("tear-link-to-yielded-node", site, "after an interrupted tear-down node %d is still reachable although it was handed out", id);
            if (++seen > N) return c.fail("tear-remaining-structure-broken", site, "cycle among the remaining nodes");
            if (x->left) stack.push_back(x->left);
            if (x->right) stack.push_back(x->right);
        }
        if (seen != expect) return c.fail("tear-remaining-set-wrong", site, "%zu nodes still reachable after the interruption, %zu not yet handed out", seen, expect);
        return true;
    }

    // ------------------------------------------------------------ bursts
    int deep = 0;
    // The sparsest AVL shape (a Fibonacci tree: every node's left subtree one level taller than its right one) inserted in
    // level order.  Every prefix of a level order is balanced, so no insertion rotates and the library ends up with exactly
    // that shape: the only way to a tree of more than 32 levels with "only" 15 million elements.
    bool fib_fill(int client)
    {
        std::vector<size_t> S = {0, 1};
        while (S.back() + S[S.size() - 2] + 1 <= std::min(N, (size_t)U)) S.push_back(S.back() + S[S.size() - 2] + 1);
        int const h = (int)S.size() - 1;
        std::deque<std::pair<int, size_t>> q; q.push_back({h, 0});
        uint64_t i = 0;
        while (!q.empty() && c.ok())
        {
            int const hh = q.front().first; size_t const off = q.front().second; q.pop_front();
            if (hh <= 0) continue;
            size_t const L = S[(size_t)hh - 1];
            if (!do_insert(client, i++, (int)(off + L))) return false;
            q.push_back({hh - 1, off});
            if (hh >= 2) q.push_back({hh - 2, off + L + 1});
        }
        c.st.add("probe.fibonacci_fill");
        return true;
    }
    bool do_burst(Op const &o)
    {
        if (deep >= 2 && T::is_avl() && model.empty()) return fib_fill(o.client);
        uint64_t const v0 = (uint64_t)(o.a[0] < 0 ? -o.a[0] : o.a[0]);
        size_t n = 2 + (size_t)((uint64_t)(o.a[1] < 0 ? -o.a[1] : o.a[1]) % 40);
        if (check_every > 1 && (v0 % 8) < 3) n = N; // big-tree run: a filling burst fills the pool
        int const start = (int)((uint64_t)(o.a[2] < 0 ? -o.a[2] : o.a[2]) % (uint64_t)U);
        int const kind = (int)(v0 % 8);
        c.st.add(std::string("probe.burst_kind_") + std::to_string(kind));
        switch (kind)
        {
        case 0: for (size_t i = 0; i < n && c.ok(); ++i) if (!do_insert(o.client, i, (start + (int)i) % U)) return false; break;
        case 1: for (size_t i = 0; i < n && c.ok(); ++i) if (!do_insert(o.client, i, ((start - (int)i) % U + U) % U)) return false; break;
        case 2: for (size_t i = 0; i < n && c.ok(); ++i) { int k = (i & 1) ? (U - 1 - (int)(i / 2)) : (int)(i / 2); if (!do_insert(o.client, i, ((k % U) + U) % U)) return false; } break;
        case 3:
        { // remove in insertion order
            for (size_t i = 0; i < n && !model.empty(); ++i)
            {
                int best = -1; for (size_t j = 0; j < N; ++j) if (resident[j] && (best < 0 || inserted_at[j] < inserted_at[(size_t)best])) best = (int)j;
                if (!do_remove_id(best)) return false;
            }
            break;
        }
        case 4: for (size_t i = 0; i < n && !model.empty(); ++i) if (!do_remove_id(model.begin()->second)) return false; break;
        case 5: for (size_t i = 0; i < n && !model.empty(); ++i) { int id = id_of(root.node); if (id < 0 || !resident[(size_t)id]) return true; if (!do_remove_id(id)) return false; } break;
        case 6: for (size_t i = 0; i < n && !model.empty(); ++i) if (!do_remove_id(model.rbegin()->second)) return false; break;
        default:
        { // build a few complete levels in level order, then delete leaves on alternating sides
            int const levels = 2 + (int)(n % 3); int const cnt = (1 << levels) - 1;
            int const step = U / (cnt + 1) > 0 ? U / (cnt + 1) : 1;
            for (int lvl = 0; lvl < levels && c.ok(); ++lvl)
                for (int j = 0; j < (1 << lvl) && c.ok(); ++j)
                {
                    int pos = ((2 * j + 1) << (levels - 1 - lvl)); // 1..cnt in-order position
                    if (!do_insert(o.client, (uint64_t)pos, (pos * step) % U)) return false;
                }
            for (size_t i = 0; i < n && !model.empty() && c.ok(); ++i)
            {
                int id = (i & 1) ? model.rbegin()->second : model.begin()->second;
                // walk down to a leaf on that side
                Node *x = nd(id);
                if (!do_remove_id(id_of(x))) return false;
            }
            break;
        }
        }
        return true;
    }

    // ------------------------------------------------------------ interpreter
    void exec(Plan const &p)
    {
        deep = (int)p.knob("deep", 0);
        int64_t const cap = deep >= 2 ? 30000000 : 400000; // deep == 2: the multi-million-node items of the thorough tier
        N = (size_t)std::max<int64_t>(1, std::min<int64_t>(cap, p.knob("nodes", 32)));
        U = (int)std::max<int64_t>(1, std::min<int64_t>(cap, p.knob("universe", 16)));
        if (deep >= 2) cpu_alarm(1500); // such an item legitimately takes minutes of CPU time; the driver re-arms its own limit for the next item
        nclients = (int)std::max<int64_t>(1, std::min<int64_t>(4, p.knob("clients", 1)));
        g_cmp_style = (int)(p.knob("cmpstyle", 0) % 3);
        check_every = (size_t)std::max<int64_t>(1, p.knob("check_every", 1));
        if (p.knob("straddle", 0) && N <= 4096)
        { // address-space personality: the pool straddles a 4 GiB boundary so that one node sits at an address whose low 32
          // bits are zero and its neighbours differ from each other in bit 32 - where a pointer squeezed through 32 bits breaks
            uintptr_t const B = (uintptr_t)0x5A00 << 32;
            size_t const j = N / 2;
            uintptr_t const want = B - j * sizeof(Entry) - offsetof(Entry, link);
            uintptr_t const start = want & ~(uintptr_t)4095;
            size_t const len = ((want - start) + sizeof(Entry) * N + 4095) & ~(size_t)4095;
#ifndef MAP_FIXED_NOREPLACE
#define MAP_FIXED_NOREPLACE 0x100000
#endif
            void *m = mmap((void *)start, len, PROT_READ | PROT_WRITE, MAP_PRIVATE | MAP_ANONYMOUS | MAP_FIXED_NOREPLACE, -1, 0);
            if (m != MAP_FAILED && (uintptr_t)m == start) { map_base = m; map_len = len; pool = (Entry *)want; c.st.add("probe.pool_straddles_4GiB_boundary"); }
            else if (m != MAP_FAILED) munmap(m, len);
        }
        if (!pool && posix_memalign((void **)&pool, 64, sizeof(Entry) * N) != 0) abort();
        memset(pool, 0xCD, sizeof(Entry) * N);
        resident.assign(N, 0); inserted_at.assign(N, 0);
        for (size_t i = 0; i < N; ++i) { pool[i].id = (int)i; pool[i].key = -1; poison((int)i); }
        T::root_init(&root);
        list_init();
        for (size_t i = 0; i < p.ops.size() && c.ok() && !precond_failed; ++i)
        {
            Op const &o = p.ops[i];
            c.opi = (int)i;
            c.st.add(std::string("op.") + (T::is_avl() ? "avl." : "rbt.") + TREE_OP_NAMES[o.kind]);
            c.logf("op %zu %s%s c=%d a=%lld,%lld,%lld,%lld  [n=%zu]\n", i, T::pfx(), TREE_OP_NAMES[o.kind], o.client, (long long)o.a[0], (long long)o.a[1], (long long)o.a[2], (long long)o.a[3], model.size());
            int const client = ((o.client % nclients) + nclients) % nclients;
            uint64_t const a0 = (uint64_t)(o.a[0] < 0 ? -o.a[0] : o.a[0]), a1 = (uint64_t)(o.a[1] < 0 ? -o.a[1] : o.a[1]);
            switch (o.kind)
            {
            case T_INSERT: do_insert(client, a1, (int)(a0 % (uint64_t)U)); break;
            case T_INSERT_DUP:
            {
                if (model.empty()) { do_insert(client, a1, (int)(a0 % (uint64_t)U)); break; }
                auto it = model.begin(); std::advance(it, (long)(a0 % model.size()));
                if ((o.a[2] & 3) == 0)
                { // the element offered is the resident object itself: "changes nothing and returns the resident element"
                    std::string const name = nm("insert");
                    uint64_t const before = struct_hash();
                    c.site(name.c_str());
                    Node *r = T::insert(&root, nd(it->second));
                    c.st.add("probe.duplicate_insert_same_object");
                    if (struct_prop)
                    {
                        if (r != nd(it->second)) { c.fail("duplicate-insert-wrong-result", name.c_str(), "re-inserting the resident element with key %d returned %s", it->first, r ? "another node" : "NULL"); break; }
                        if (struct_hash() != before) { c.fail("duplicate-insert-changed-tree", name.c_str(), "re-inserting the resident element with key %d modified the tree", it->first); break; }
                    }
                    check_struct(name.c_str());
                    break;
                }
                do_insert(client, a1, it->first);
                break;
            }
            case T_REMOVE:
            {
                if (model.empty()) break;
                // one of the client's own resident nodes, falling back to another client's
                do_remove_id(resident_node(client, a0));
                break;
            }
            case T_REMOVE_FOUND:
            {
                int const key = (int)(a0 % (uint64_t)U);
                Entry probe; memset(&probe, 0, sizeof probe); probe.key = key;
                c.site(nm("search").c_str());
                Node *r = T::search(&root, &probe);
                auto it = model.find(key);
                if (struct_prop && ((it == model.end()) != (r == nullptr) || (r && r != nd(it->second)))) { c.fail(r ? "lookup-found-absent" : "lookup-missed-present", nm("search").c_str(), "lookup of key %d disagrees with the model", key); break; }
                if (it != model.end() && r == nd(it->second)) do_remove_id(it->second);
                break;
            }
            case T_SEARCH: do_search((int)(a0 % (uint64_t)(U + 2)) - 1, (int)(a1 % 3)); break;
            case T_BURST: do_burst(o); break;
            case T_ITER: do_iterate(); break;
            case T_TEAR: do_tear(o); break;
            default: break;
            }
            ++c.steps;
            c.obs((uint64_t)o.kind); c.obs(model.size());
        }
        if (c.ok() && !precond_failed && check_every > 1) check_struct("end-of-history", true);
        // end of history: always iterate and tear (C03), and leave nothing resident
        if (c.ok() && !precond_failed && p.knob("deep", 0))
        { // every key of the deep monotone tree must be found, through all three ways of passing the key
            c.opi = (int)p.ops.size();
            c.st.add("probe.deep_tree_every_key_looked_up");
            { size_t deepest = 0; for (size_t i = 0; i < N; i += 1) if (resident[i]) { size_t d = 0; for (Node *x = nd((int)i); x; x = T::parent(x)) ++d; if (d > deepest) deepest = d; } c.logf("deep tree: %zu elements, %zu levels\n", model.size(), deepest); if (deepest > 32) c.st.add("probe.deep_tree_more_than_32_levels"); if (deepest > 40) c.st.add("probe.deep_tree_more_than_40_levels"); }
            for (int key = 0; key < U && c.ok(); ++key) do_search(key, key % 101 == 0 ? 1 : key % 103 == 0 ? 2 : 0);
            if (deep >= 2 && struct_prop)
            { // removals whose rebalancing has to climb the whole height: first the smallest key (the deepest leaf of the Fibonacci
              // tree, every ancestor of which loses a level; a leaf of the all-black shallow side of the ascending red-black
              // fill), then the greatest key (the shallowest Fibonacci leaf: a rotation at every level), and the root
                for (int k = 0; k < 16 && c.ok() && !model.empty(); ++k)
                {
                    int const id = k % 4 == 3 ? id_of(root.node) : k % 4 == 1 ? model.rbegin()->second : model.begin()->second;
                    if (id < 0 || !resident[(size_t)id]) break;
                    if (!do_remove_id(id)) break;
                    if (k < 3 || k == 15) check_struct("deep-removal", true);
                }
                c.st.add("probe.deep_tree_removals_checked");
            }
        }
        if (c.ok() && !precond_failed && iter_prop)
        {
            c.opi = (int)p.ops.size();
            if (do_iterate()) { Op t; t.kind = T_TEAR; t.a[0] = (int64_t)(p.seed % 97); t.a[1] = (int64_t)(p.seed % 89); t.a[2] = (int64_t)(p.seed % 83); t.a[3] = (int64_t)(p.seed % 384); do_tear(t); }
        }
    }
};

struct TreeEngine : Engine
{
    char const *name() const override { return "tree"; }
    std::vector<std::string> properties() const override { return {"C01", "C02", "C03"}; }
    char const *op_name(int kind) const override { return kind >= 0 && kind < T__COUNT ? TREE_OP_NAMES[kind] : "?"; }
    int op_kind(std::string const &n) const override { for (int k = 0; k < T__COUNT; ++k) if (n == TREE_OP_NAMES[k]) return k; return -1; }

    Plan generate(std::string const &prop, uint64_t seed, int tier) override
    {
        (void)tier;
        Rng r(seed);
        Plan p; p.engine = "tree"; p.prop = prop; p.seed = seed;
        int kind = prop == "C01" ? 0 : prop == "C02" ? 1 : (int)r.below(2);
        p.set("kind", kind);
        static const int64_t NN[] = {4, 8, 16, 32, 64, 128, 300, 1024};
        static const int64_t UU[] = {4, 8, 16, 32, 64, 128, 512, 4096};
        p.set("nodes", r.pick(NN));
        p.set("universe", r.pick(UU));
        p.set("clients", (int64_t)r.range(1, 4));
        p.set("cmpstyle", (int64_t)r.below(3));
#ifdef SIM_ALT_CONFIG
        p.set("build_alt", 1); // this plan belongs to the build with the fallback node layout (separate parent / factor / colour fields)
#endif
        bool const big = r.chance(1, 400);
        if (big)
        { // a rare deep-tree configuration: tens of thousands of elements, structural walk on every 4096th operation
            p.set("nodes", 70000); p.set("universe", 100000); p.set("check_every", 4096); p.set("clients", 1);
        }
        bool en[T__COUNT];
        for (int k = 0; k < T__COUNT; ++k) en[k] = r.chance(1, 2);
        en[T_INSERT] = true;
        if (!(en[T_REMOVE] || en[T_REMOVE_FOUND])) en[r.chance(1, 2) ? T_REMOVE : T_REMOVE_FOUND] = true;
        if (prop != "C03") { en[T_ITER] = false; if (en[T_TEAR]) en[T_TEAR] = r.chance(1, 3); }
        else { en[T_ITER] = true; en[T_TEAR] = r.chance(3, 4); }
        std::vector<int> kinds;
        for (int k = 0; k < T__COUNT; ++k) if (en[k])
        {
            int w = (k == T_INSERT) ? 6 : (k == T_REMOVE || k == T_REMOVE_FOUND) ? 4 : (k == T_TEAR) ? 1 : 2;
            if (prop == "C03" && (k == T_ITER)) w = 3;
            if (prop == "C03" && (k == T_TEAR)) w = 2;
            for (int j = 0; j < w; ++j) kinds.push_back(k);
        }
        int64_t const nops = big ? r.range(2, 12) : r.geolen(8, 400);
        for (int64_t i = 0; i < nops; ++i)
        {
            Op o; o.kind = kinds[r.below(kinds.size())];
            o.client = (int)r.below(4);
            for (int k = 0; k < 4; ++k) o.a[k] = (int64_t)r.below(100000);
            if (big && i == 0) { o.kind = T_BURST; o.a[0] = (int64_t)r.below(3); o.a[2] = 0; } // ascending / descending / zig-zag fill
            p.ops.push_back(o);
        }
        if (!big) p.set("straddle", r.chance(1, 5)); // drawn last: the plans of earlier versions keep their meaning
        if (tier && prop != "C03" && r.chance(1, 100000))
        { // thorough tier only: a monotone fill deep enough for a red-black tree to exceed 32 levels (2^18 ascending keys give
          // 34), followed by a lookup of every key
            p.ops.clear();
            p.set("nodes", 300000); p.set("universe", 300000); p.set("check_every", 65536); p.set("clients", 1); p.set("straddle", 0); p.set("deep", 1);
            Op o; o.kind = T_BURST; o.client = 0; o.a[0] = 0; o.a[1] = 0; o.a[2] = 0; o.a[3] = 0;
            p.ops.push_back(o);
        }
        if (tier && prop != "C03" && r.chance(1, 4000000))
        { // thorough tier only, a handful per sweep: 14 930 351 elements as a Fibonacci tree (AVL, 33 levels) or 6 000 000 ascending
          // keys (red-black, more than 40 levels), a lookup of every key and removals that rebalance along the whole height
            p.ops.clear();
            int64_t const n = kind == 0 ? 14930351 : 6000000;
            p.set("nodes", n); p.set("universe", n); p.set("check_every", 1 << 23); p.set("clients", 1); p.set("straddle", 0); p.set("deep", 2);
            Op o; o.kind = T_BURST; o.client = 0; o.a[0] = 0; o.a[1] = 0; o.a[2] = 0; o.a[3] = 0;
            p.ops.push_back(o);
        }
        return p;
    }
    Result execute(Plan const &p, Stats &st, FILE *log) override
    {
        Ctx c(st, log);
        if (p.knob("kind", 0) == 0) { TreeSim<AvlTraits> s(c, p.prop); s.exec(p); }
        else { TreeSim<RbtTraits> s(c, p.prop); s.exec(p); }
        return c.result();
    }
    std::vector<KnobShrink> shrinkable_knobs() const override { return {{"clients", 1}, {"nodes", 1}, {"universe", 1}, {"cmpstyle", 0}, {"check_every", 1}}; }
    std::vector<std::string> components(std::string const &prop) const override
    {
        if (prop == "C01") return {"REAL: src/avl.c, include/a/avl.h", "STUB: none (intrusive container, node storage is a harness pool; comparator is a harness function)"};
        if (prop == "C02") return {"REAL: src/rbt.c, include/a/rbt.h", "STUB: none (intrusive container, node storage is a harness pool; comparator is a harness function)"};
        return {"REAL: src/avl.c, src/rbt.c, iterator macros of include/a/avl.h and include/a/rbt.h used verbatim", "STUB: none; removed / handed-out nodes are poisoned by the harness (ASan) or scribbled (plain build)"};
    }
    std::string rule(std::string const &prop) const override
    {
        if (prop == "C03") return "items are seeded insert/remove histories (1-4 clients, key universe 4..4096, node pool 4..1024 - one pool in five mapped across a 4 GiB address boundary -, one run in 400 with a 70000-node pool, and in the thorough tier rare 300000-node monotone fills followed by a lookup of every key) during and after which every iterator form (functions, lower- and upper-case macros) is compared with a recursive reference traversal and tear-down is driven with 0-3 interruptions (started at the root or at a seeded element; resumed with the saved cursor, from scratch, or at a seeded element), each yielded node poisoned at once; distinct_nontrivial = HyperLogLog estimate of distinct tree shapes (structure + balance/colour bits) on which the iterator or structural oracle ran";
        return "items are seeded multi-client insert (library insert or manual link + insert_adjust) / duplicate-insert (other object or the resident object itself) / remove / lookup (node-shaped or bare-key probe) / burst histories on the real tree with a std::map reference model and three comparator styles (sign, difference, huge magnitudes); all structural invariants are re-derived by an O(n) walk after every single insert and remove (every 4096th in the rare 70000-node runs; the thorough tier adds rare 300000-node monotone fills and, one history in four million, a 14930351-element Fibonacci-shaped AVL tree of 34 levels / a 6000000-element ascending red-black tree of 42 levels with a lookup of every key and whole-height removals); distinct_nontrivial = HyperLogLog estimate of distinct tree shapes (structure + balance/colour bits) reached";
    }
    std::vector<std::string> assumptions(std::string const &prop) const override
    {
        std::vector<std::string> v = {"sampling, not proof: a clean batch is evidence proportional to the reach numbers in this file", "comparator is a consistent total order on integer keys (any magnitudes); nodes are removed only while resident; a resident node is offered to insert only as the deliberate 'duplicate is the resident object itself' case", "clang 14 ASan+UBSan build; removed nodes are poisoned so a stale link is a sanitizer abort, reported as a violation"};
        if (prop == "C03") v.push_back("iterator checks run only on trees that pass the C01/C02 structural check (a malformed tree is attributed to C01/C02 and counted as precondition_failed here)");
        return v;
    }
    uint64_t default_runs(std::string const &prop, int tier) const override { (void)prop; return tier ? 16000000 : 200000; }
};

Engine *make_engine() { return new TreeEngine(); }

} // namespace sim

int main(int argc, char **argv) { return sim::driver_main(argc, argv); }
