// seq engine, target `que` (C05, and C07 with faults).  Oracle: DESIGN.md Appendix A.
#pragma once
#include "seq_common.h"
extern "C" {
#include "a/que.h"
}

namespace sim {

enum QueOp
{
    Q_PUSH_FORE, Q_PUSH_BACK, Q_INSERT, Q_PULL_FORE, Q_PULL_BACK, Q_REMOVE, Q_AT, Q_FOREBACK, Q_PUSH_SORT, Q_PUSH_FORE_SORT,
    Q_PUSH_BACK_SORT, Q_SWAP_ELEMS, Q_SWAP, Q_DROP, Q_SETZ, Q_FOREACH, Q_RECREATE, Q_BURST, Q__COUNT
};
static char const *const QUE_OP_NAMES[] = {"q_push_fore", "q_push_back", "q_insert", "q_pull_fore", "q_pull_back", "q_remove", "q_at", "q_foreback",
                                           "q_push_sort", "q_push_fore_sort", "q_push_back_sort", "q_swap_elems", "q_swap", "q_drop", "q_setz",
                                           "q_foreach", "q_recreate", "q_burst"};

struct QElem { void *addr; std::string bytes; };
struct QueBox
{
    a_que *q = nullptr;
    bool heap = false;
    size_t z = 4;
    std::vector<QElem> M;
};

struct QueTarget
{
    Ctx &c;
    SeqRun run;
    QueBox box[2];
    uint64_t stamp = 0;
    uint32_t keyspace = 16;
    size_t maxlen = 40;
    bool fault_plan = false;
    int64_t bern_permille = 0; uint64_t bern_seed = 0;
    bool mac = false; // this op goes through the typed upper-case macro forms
    explicit QueTarget(Ctx &c_) : c(c_), run(c_) {}

    std::string fresh(QueBox &x, int64_t key) { return make_elem(x.z, (uint32_t)((uint64_t)(key < 0 ? -key : key) % keyspace), ++stamp); }
    static bool sorted(std::vector<QElem> const &m, size_t z)
    {
        for (size_t i = 1; i < m.size(); ++i) if (elem_key(m[i - 1].bytes.data(), z) > elem_key(m[i].bytes.data(), z)) return false;
        return true;
    }

    // walk the ring through public links; returns false (after c.fail) when it is not a closed ring of the expected length
    bool ring(QueBox &x, char const *site, std::vector<void *> &out, size_t limit)
    {
        out.clear();
        a_list const *head = &x.q->head_;
        a_list const *it = head->next;
        size_t n = 0;
        while (it != head)
        {
            if (n > limit) return c.fail("ring-not-closed", site, "forward walk did not return to the queue's own sentinel after %zu nodes", n);
            if (!SA.owns(it, sizeof(a_list) + x.z)) return c.fail("node-outside-storage", site, "ring member %zu is not a live node block with room for %zu element bytes", n, x.z);
            if (it->next->prev != it) return c.fail("links-inconsistent", site, "node %zu: next->prev does not point back", n);
            if (it->prev->next != it) return c.fail("links-inconsistent", site, "node %zu: prev->next does not point back", n);
            out.push_back((void *)(it + 1));
            it = it->next; ++n;
        }
        if (head->next->prev != head || head->prev->next != head) return c.fail("links-inconsistent", site, "sentinel links do not point back");
        return true;
    }
    bool check(QueBox &x, char const *site)
    {
        if (!x.q) return true;
        if (!SA.err_cls.empty()) return c.fail(SA.err_cls.c_str(), site, "%s", SA.err_detail.c_str());
        if (uint64_t bad = SA.check_guards()) return c.fail("guard-damaged", site, "bytes next to block #%llu were overwritten", (unsigned long long)bad);
        if (g_cmp_forbidden_hit) { g_cmp_forbidden_hit = false; return c.fail("comparator-called-on-sentinel", site, "the comparator was handed an address inside the queue object itself (the ring sentinel is not an element)"); }
        if (a_que_siz(x.q) != x.z) return c.fail("element-size-mismatch", site, "element size %zu, expected %zu", a_que_siz(x.q), x.z);
        std::vector<void *> got;
        if (!ring(x, site, got, x.M.size() + 2)) return false;
        if (a_que_num(x.q) != x.M.size()) return c.fail("length-mismatch", site, "a_que_num %zu, model %zu (ring has %zu)", a_que_num(x.q), x.M.size(), got.size());
        if (got.size() != x.M.size()) return c.fail("length-mismatch", site, "ring has %zu members, model %zu", got.size(), x.M.size());
        for (size_t i = 0; i < got.size(); ++i)
        {
            if (got[i] != x.M[i].addr) return c.fail("element-address-changed", site, "position %zu holds a different element address than the model (addresses must stay fixed while enqueued)", i);
            if (memcmp(got[i], x.M[i].bytes.data(), x.z) != 0) return c.fail("content-mismatch", site, "element %zu bytes differ from the model", i);
        }
        // backward walk is the reverse
        a_list const *head = &x.q->head_;
        a_list const *it = head->prev; size_t k = got.size();
        while (it != head) { if (k == 0 || (void *)(it + 1) != got[k - 1]) return c.fail("links-inconsistent", site, "backward walk is not the reverse of the forward walk"); --k; it = it->prev; }
        if (k != 0) return c.fail("links-inconsistent", site, "backward walk is shorter than the forward walk");
        return true;
    }
    bool check_all(char const *site) { return check(box[0], site) && check(box[1], site); }
    void observe(QueBox &x)
    {
        c.obs(x.M.size()); c.obs(x.z);
        for (auto const &e : x.M) c.obs_bytes(e.bytes.data(), e.bytes.size());
        c.st.state(fnv_mix(fnv_mix(fnv_mix(FNV0, 99), x.z), x.M.size() * 2 + sorted(x.M, x.z)));
    }

    bool create(QueBox &x, bool heap, size_t zreq)
    {
        x.heap = heap; x.z = norm_z(zreq); x.M.clear();
        if (heap)
        {
            a_que *nq = nullptr;
            int rc = run.api("a_que_new", [&] { nq = a_que_new(zreq); return nq != nullptr; }, [&] { return true; });
            if (rc == SeqRun::API_VIOLATION) return false;
            if (rc == SeqRun::API_OK) { x.q = nq; return true; }
            c.st.add("probe.header_alloc_failed");
            x.heap = false;
        }
        x.q = (a_que *)SA.halloc(sizeof(a_que));
        c.site("a_que_ctor");
        a_que_ctor(x.q, zreq);
        return true;
    }
    bool destroy(QueBox &x, bool with_dtor)
    {
        if (!x.q) return true;
        g_cb_z = x.z; g_dtor_seen.clear(); g_dtor_outside = false;
        void (*d)(void *) = with_dtor ? elem_dtor : nullptr;
        if (x.heap) { c.site("a_que_die"); a_que_die(x.q, d); }
        else { c.site("a_que_dtor"); a_que_dtor(x.q, d); SA.hfree(x.q); }
        x.q = nullptr; x.M.clear();
        if (g_dtor_outside) return c.fail("dtor-outside-storage", "a_que_dtor", "element destructor called with a pointer outside owned storage");
        if (!SA.err_cls.empty()) return c.fail(SA.err_cls.c_str(), "a_que_die", "%s", SA.err_detail.c_str());
        return true;
    }

    // a push-style call; `pos` is where the model expects the new element; -1 = sorted insert (position found afterwards)
    bool do_push(QueBox &x, char const *name, std::function<void *()> const &call, long pos, int64_t key, std::string const *prepared = nullptr)
    {
        g_cb_z = x.z;
        void *p = nullptr;
        int rc = run.api(name, [&] { p = call(); return p != nullptr; }, [&] { return check(x, name); });
        if (rc == SeqRun::API_VIOLATION) return false;
        if (rc == SeqRun::API_FAULTED) return true;
        if (rc != SeqRun::API_OK) return c.fail("unexpected-failure", name, "returned NULL with memory available");
        for (auto const &e : x.M) if (e.addr == p) return c.fail("enqueued-node-handed-out-again", name, "returned the address of an element that is still enqueued");
        for (auto const &e : box[&x == &box[0] ? 1 : 0].M) if (e.addr == p) return c.fail("enqueued-node-handed-out-again", name, "returned the address of an element enqueued in the other queue");
        if (!SA.owns(p, x.z)) return c.fail("returned-pointer-outside-storage", name, "new element does not lie inside a node block with room for %zu bytes", x.z);
        QElem e; e.addr = p; e.bytes = prepared ? *prepared : fresh(x, key);
        memcpy(p, e.bytes.data(), x.z);
        if (pos >= 0)
        {
            x.M.insert(x.M.begin() + pos, e);
            return check(x, name);
        }
        return place_sorted(x, name, e);
    }
    // the real sequence minus the new element must be the old model; keys must be sorted
    bool place_sorted(QueBox &x, char const *name, QElem const &e)
    {
        std::vector<void *> got;
        if (!ring(x, name, got, x.M.size() + 3)) return false;
        if (got.size() != x.M.size() + 1) return c.fail("length-mismatch", name, "ring has %zu members after a sorted insert into %zu", got.size(), x.M.size());
        size_t at = got.size();
        for (size_t i = 0; i < got.size(); ++i) if (got[i] == e.addr) { at = i; break; }
        if (at == got.size()) return c.fail("elements-lost-or-altered", name, "the inserted element is not in the queue");
        x.M.insert(x.M.begin() + (long)at, e);
        if (!check(x, name)) return false;
        if (!sorted(x.M, x.z)) return c.fail("not-sorted", name, "queue is not in non-decreasing key order after a sorted insert (new element at position %zu of %zu)", at, x.M.size());
        return true;
    }
    bool do_pull(QueBox &x, char const *name, std::function<void *()> const &call, size_t pos)
    {
        void *p = nullptr;
        bool const empty = x.M.empty();
        int rc = run.api(name, [&] { p = call(); return p != nullptr || empty; }, [&] { return check(x, name); });
        if (rc == SeqRun::API_VIOLATION) return false;
        if (rc == SeqRun::API_FAULTED) return true;
        if (empty)
        {
            if (p) return c.fail("remove-from-empty-returned-element", name, "returned a pointer although the queue is empty");
            return check(x, name);
        }
        if (rc != SeqRun::API_OK) return c.fail("unexpected-failure", name, "returned NULL on a non-empty queue with memory available");
        if (pos >= x.M.size()) pos = x.M.size() - 1;
        if (p != x.M[pos].addr) return c.fail("removed-wrong-element", name, "returned a different element than position %zu of %zu", pos, x.M.size());
        if (!SA.owns(p, x.z) || memcmp(p, x.M[pos].bytes.data(), x.z) != 0) return c.fail("removed-element-not-intact", name, "bytes of the removed element differ from what was enqueued");
        x.M.erase(x.M.begin() + (long)pos);
        return check(x, name);
    }

    void exec(Plan const &p)
    {
        SA.reset();
        SA.stats = &c.st;
        SA.always_move = p.knob("alloc_move", 0) != 0;
        SA.junk_fill = p.knob("alloc_junk", 1) != 0;
        SA.reuse_lifo = p.knob("alloc_reuse", 0) != 0;
        SA.junk_seed = (unsigned char)p.knob("junk_seed", 0x5b);
        SA.passthrough = p.knob("alloc_default", 0) != 0;
        if (SA.passthrough) c.st.add("probe.default_allocator_a_alloc_");
        SA.classify = [this](void *addr, size_t size) -> char const * {
            char const *s = g_shared->site;
            if (strstr(s, "a_que_new")) return "que_header";
            for (int i = 0; i < 2; ++i)
                if (box[i].q)
                {
                    if (addr && addr == (void *)box[i].q->ptr_) return "que_pool_growth";
                }
            if (!addr && size % sizeof(void *) == 0 && !strstr(s, "push") && !strstr(s, "insert")) return "que_pool_growth";
            if (addr) return "que_setz_node_regrowth";
            return "que_node";
        };
        install_simalloc();
        run.setup_bernoulli(bern_permille, bern_seed);
        keyspace = (uint32_t)std::max<int64_t>(1, p.knob("keyspace", 16));
        g_cmp_style = (int)(p.knob("cmpstyle", 0) % 3);
        maxlen = (size_t)std::max<int64_t>(1, p.knob("maxlen", 40));
        fault_plan = p.prop == "C07"; // a property of the plan, the same in its fault-free and in its faulted executions
        size_t const z0 = ELEM_SIZES[(size_t)p.knob("zsel", 4) % N_ELEM_SIZES_ALL];
        bool const heap0 = p.knob("heap", 1) != 0;
        if (!create(box[0], heap0, z0) || !create(box[1], !heap0, z0)) return;
        for (size_t i = 0; i < p.ops.size() && c.ok(); ++i)
        {
            Op const &o = p.ops[i];
            run.op_begin(o, (int)i);
            c.st.add(std::string("op.que.") + QUE_OP_NAMES[o.kind - 200]);
            c.logf("op %zu %s c=%d a=%lld,%lld,%lld,%lld f=%d:%lld  [len0=%zu len1=%zu]\n", i, QUE_OP_NAMES[o.kind - 200], o.client, (long long)o.a[0], (long long)o.a[1], (long long)o.a[2], (long long)o.a[3], o.fk, (long long)o.fa, box[0].M.size(), box[1].M.size());
            step(o);
            run.op_end();
            ++c.steps;
            c.obs((uint64_t)o.kind);
            observe(box[0]); observe(box[1]);
            if (fault_plan && g_heavy_plan) break; // a fault-enumerated history ends after its very long op (every execution repeats the fill)
        }
        SA.clear_fault(); run.persistent_active = false;
        if (c.ok())
        {
            c.opi = (int)p.ops.size();
            bool wd = p.knob("dtor_at_end", 0) != 0;
            if (destroy(box[0], wd) && destroy(box[1], wd))
            {
                uint64_t lid; size_t bytes; size_t n = SA.leaks(lid, bytes);
                if (n) c.fail("leak", "a_que_die", "%zu block(s), %zu bytes still allocated after the queues were destroyed (first: block #%llu)", n, bytes, (unsigned long long)lid);
            }
        }
        SA.stats = nullptr;
    }

    void step(Op const &o)
    {
        QueBox &x = box[o.client & 1];
        a_que *q = x.q;
        size_t const len = x.M.size();
        bool const roomy = len < maxlen;
        g_cb_z = x.z;
        g_cmp_forbid_lo = (uintptr_t)q; g_cmp_forbid_len = q ? sizeof(a_que) : 0; g_cmp_forbidden_hit = false;
        typedef unsigned char UC;
        mac = (((uint64_t)o.a[0] * 3 + (uint64_t)o.a[1] * 5 + (uint64_t)o.a[2] * 7 + (uint64_t)o.a[3]) >> 3 & 3) == 0;
        if (mac) c.st.add("probe.typed_macro_form");
        switch (o.kind - 200)
        {
        case Q_PUSH_FORE: if (roomy) do_push(x, "a_que_push_fore", [&] { return mac ? (void *)A_QUE_PUSH_FORE(UC, q) : a_que_push_fore(q); }, 0, o.a[0]); break;
        case Q_PUSH_BACK: if (roomy) do_push(x, "a_que_push_back", [&] { return mac ? (void *)A_QUE_PUSH_BACK(UC, q) : a_que_push_back(q); }, (long)len, o.a[0]); break;
        case Q_INSERT:
        {
            if (!roomy) break;
            size_t const idx = pick_index(o.a[0], o.a[1], len);
            do_push(x, "a_que_insert", [&] { return mac ? (void *)A_QUE_INSERT(UC, q, idx) : a_que_insert(q, idx); }, (long)std::min(idx, len), o.a[2]);
            break;
        }
        case Q_PULL_FORE: do_pull(x, "a_que_pull_fore", [&] { return mac ? (void *)A_QUE_PULL_FORE(UC, q) : a_que_pull_fore(q); }, 0); break;
        case Q_PULL_BACK: do_pull(x, "a_que_pull_back", [&] { return mac ? (void *)A_QUE_PULL_BACK(UC, q) : a_que_pull_back(q); }, len ? len - 1 : 0); break;
        case Q_REMOVE:
        {
            size_t const idx = pick_index(o.a[0], o.a[1], len);
            do_pull(x, "a_que_remove", [&] { return mac ? (void *)A_QUE_REMOVE(UC, q, idx) : a_que_remove(q, idx); }, idx);
            break;
        }
        case Q_BURST:
        { // fill / drain bursts: the node pool only grows beyond a few entries when many elements are pulled in a row
            size_t const n = 9 + (size_t)((uint64_t)(o.a[1] < 0 ? -o.a[1] : o.a[1]) % (run.faults_enabled || bern_permille ? 12 : 64));
            int const kind = (int)((uint64_t)(o.a[0] < 0 ? -o.a[0] : o.a[0]) % 4);
            c.st.add("probe.que_burst");
            auto fill = [&](size_t k) { for (size_t i = 0; i < k && c.ok(); ++i) { size_t before = x.M.size(); do_push(x, "a_que_push_back", [&] { return a_que_push_back(q); }, (long)x.M.size(), o.a[2] + (int64_t)i); if (x.M.size() == before) break; } };
            auto drain = [&](bool fore) { size_t guard = 0; while (c.ok() && !x.M.empty() && guard++ < 400) { size_t before = x.M.size(); if (fore) do_pull(x, "a_que_pull_fore", [&] { return a_que_pull_fore(q); }, 0); else do_pull(x, "a_que_pull_back", [&] { return a_que_pull_back(q); }, x.M.size() - 1); if (x.M.size() == before) break; } };
            if (kind == 2 && x.z <= 32 && (fault_plan ? ((uint64_t)(o.a[2] < 0 ? -o.a[2] : o.a[2]) % 50) == 49 : ((uint64_t)(o.a[2] < 0 ? -o.a[2] : o.a[2]) % 500) == 299))
            { // a rare very long queue (70 000 elements, checked once at the end instead of after every push), dropped in one call
              // and used again: sizes three orders of magnitude beyond the ordinary histories, where pool thresholds live
                size_t const H = 70000; c.logf("  very long queue: %zu elements of %zu bytes\n", H, x.z);
                c.st.add("probe.que_very_long_then_dropped"); g_heavy_plan = true; g_heavy_op = c.opi;
                c.site("a_que_push_back");
                SA.suspended = true; // the fill is preparation: allocation failures are aimed at the drop and at what follows
                for (size_t i = 0; i < H; ++i)
                {
                    void *np = a_que_push_back(q);
                    if (!np) { c.fail("unexpected-failure", "a_que_push_back", "returned NULL with memory available (element %zu of a long fill)", i); break; }
                    QElem e; e.addr = np; e.bytes = fresh(x, (int64_t)i); memcpy(np, e.bytes.data(), x.z); x.M.push_back(e);
                }
                SA.suspended = false;
                if (!c.ok() || !check(x, "a_que_push_back")) break;
                int ret = 0;
                int rc = run.api("a_que_drop", [&] { ret = a_que_drop(q, nullptr); return ret == 0; }, [&] { return check(x, "a_que_drop"); });
                if (rc == SeqRun::API_FAULTED) break; // a persistent failure: the queue keeps its 70 000 elements, as checked
                if (rc != SeqRun::API_OK) { if (rc != SeqRun::API_VIOLATION) c.fail("unexpected-failure", "a_que_drop", "returned %d with memory available", ret); break; }
                x.M.clear();
                if (!check(x, "a_que_drop")) break;
                fill(3); drain((o.a[3] & 1) != 0);
                break;
            }
            if (kind == 0) { fill(n); drain(true); }
            else if (kind == 1) { fill(n); drain(false); fill(n / 2); }
            else if (kind == 2)
            { // drop n, then enqueue more than that and remove them all: the pool array must grow from an odd capacity
                fill(n);
                int ret = 0;
                int rc = run.api("a_que_drop", [&] { ret = a_que_drop(q, nullptr); return ret == 0; }, [&] { return check(x, "a_que_drop"); });
                if (rc == SeqRun::API_OK) { x.M.clear(); if (!check(x, "a_que_drop")) break; }
                else if (rc == SeqRun::API_VIOLATION) break;
                fill(n + 1 + (size_t)((uint64_t)(o.a[3] < 0 ? -o.a[3] : o.a[3]) % 8)); drain((o.a[3] & 1) != 0);
            }
            else { fill(n); drain(true); fill(n + 3); drain(false); }
            break;
        }
        case Q_AT:
        {
            // every index in [-len-1, len] when a[2] is odd, one index otherwise
            auto one = [&](int64_t i) {
                c.site("a_que_at");
                void *p = mac ? (void *)A_QUE_AT(unsigned char, q, (a_diff)i) : a_que_at(q, (a_diff)i);
                void *want = nullptr;
                if (i >= 0 && (uint64_t)i < len) want = x.M[(size_t)i].addr;
                else if (i < 0 && (uint64_t)(-i) <= len) want = x.M[len - (size_t)(-i)].addr;
                if (p != want) c.fail("access-wrong-element", "a_que_at", "a_que_at(%lld) on %zu elements returned %s", (long long)i, len, p ? (want ? "a different element" : "an element for an out-of-range index") : "NULL for a valid index");
                if (i < 0) c.st.add("probe.access_negative_index");
            };
            if (o.a[2] & 1) { for (int64_t i = -(int64_t)len - 1; i <= (int64_t)len && c.ok(); ++i) one(i); }
            else
            {
                size_t mag0 = pick_index(o.a[0], o.a[1], len);
                int64_t mag = mag0 > (size_t)INT64_MAX ? INT64_MAX : (int64_t)mag0;
                one((o.a[3] & 1) ? -mag : mag);
            }
            break;
        }
        case Q_FOREBACK:
        {
            c.site("a_que_fore");
            void *f = a_que_fore(q), *b = a_que_back(q);
            if (len == 0) { if (f || b) c.fail("access-wrong-element", "a_que_fore", "fore/back of an empty queue is not NULL"); }
            else if (f != x.M.front().addr || b != x.M.back().addr) c.fail("access-wrong-element", "a_que_fore", "fore/back do not designate the first/last element");
            else if (a_que_fore_(q) != f || a_que_back_(q) != b) c.fail("access-wrong-element", "a_que_fore_", "unchecked and checked fore/back disagree");
            else if ((void *)A_QUE_FORE(unsigned char, q) != f || (void *)A_QUE_BACK(unsigned char, q) != b || (void *)A_QUE_FORE_(unsigned char, q) != f || (void *)A_QUE_BACK_(unsigned char, q) != b) c.fail("access-wrong-element", "A_QUE_FORE", "typed macro fore/back disagree with the functions");
            break;
        }
        case Q_PUSH_SORT:
        {
            if (!roomy) break;
            if (!sorted(x.M, x.z)) { do_push(x, "a_que_push_back", [&] { return a_que_push_back(q); }, (long)len, o.a[0]); break; }
            std::string e = fresh(x, o.a[0]);
            c.st.add("probe.que_sorted_insert");
            g_cmp_key = e.data(); g_cmp_key_on_left = false;
            do_push(x, "a_que_push_sort", [&] { return mac ? (void *)A_QUE_PUSH_SORT(unsigned char, q, e.data(), elem_cmp) : a_que_push_sort(q, e.data(), elem_cmp); }, -1, 0, &e);
            g_cmp_key = nullptr;
            if (g_cmp_key_on_left && c.ok()) c.fail("key-passed-on-the-left", "a_que_push_sort", "the comparator received the caller's key as its left argument; the documentation puts the key on the right");
            break;
        }
        case Q_PUSH_FORE_SORT:
        case Q_PUSH_BACK_SORT:
        {
            if (!roomy) break;
            bool const fore = (o.kind - 200) == Q_PUSH_FORE_SORT;
            bool const was_sorted = sorted(x.M, x.z);
            size_t const before = x.M.size();
            if (was_sorted && ((uint64_t)(o.a[0] < 0 ? -o.a[0] : o.a[0]) >> 5) % 6 == 5)
            { // the re-sorting step alone on a queue that is sorted already (empty and one-element queues included): nothing may move
                char const *name0 = fore ? "a_que_sort_fore" : "a_que_sort_back";
                c.st.add(before == 0 ? "probe.sort_step_on_empty_sequence" : before == 1 ? "probe.sort_step_on_single_element" : "probe.sort_step_on_sorted_sequence");
                c.site(name0);
                if (fore) a_que_sort_fore(q, elem_cmp); else a_que_sort_back(q, elem_cmp);
                check(x, name0);
                break;
            }
            if (fore) { if (!do_push(x, "a_que_push_fore", [&] { return a_que_push_fore(q); }, 0, o.a[0])) break; }
            else { if (!do_push(x, "a_que_push_back", [&] { return a_que_push_back(q); }, (long)len, o.a[0])) break; }
            if (!was_sorted || x.M.size() == before) break;
            c.st.add("probe.que_sorted_insert");
            QElem e = fore ? x.M.front() : x.M.back();
            if (fore) x.M.erase(x.M.begin()); else x.M.pop_back();
            char const *name = fore ? "a_que_sort_fore" : "a_que_sort_back";
            c.site(name);
            if (fore) a_que_sort_fore(q, elem_cmp); else a_que_sort_back(q, elem_cmp);
            place_sorted(x, name, e);
            break;
        }
        case Q_SWAP_ELEMS:
        {
            if (len == 0) break;
            size_t i = (size_t)((uint64_t)(o.a[0] < 0 ? -o.a[0] : o.a[0]) % len), j = (size_t)((uint64_t)(o.a[1] < 0 ? -o.a[1] : o.a[1]) % len);
            size_t const d = i > j ? i - j : j - i;
            if (d == 1) { if (j + 1 < len && j + 1 != i) ++j; else if (j >= 1 && j - 1 != i) --j; }
            size_t const d2 = i > j ? i - j : j - i;
            if (d2 == 1) break; // neighbours are excluded by the property ("disjoint and not adjacent")
            c.site("a_que_swap_");
            a_que_swap_(x.M[i].addr, x.M[j].addr);
            std::swap(x.M[i], x.M[j]);
            c.st.add(i == j ? "probe.swap_element_with_itself" : "probe.swap_two_elements");
            check(x, "a_que_swap_");
            break;
        }
        case Q_SWAP:
        {
            c.site("a_que_swap");
            if (o.a[3] % 5 == 0)
            { // both arguments name the same object: an exchange with itself changes nothing
                int const w = (int)(o.a[2] & 1);
                a_que_swap(box[w].q, box[w].q);
                c.st.add("probe.swap_with_itself");
                check_all("a_que_swap");
                break;
            }
            a_que_swap(box[0].q, box[1].q);
            std::swap(box[0].M, box[1].M); std::swap(box[0].z, box[1].z);
            if (!box[0].M.empty() && !box[1].M.empty()) c.st.add("probe.whole_queue_swap_both_nonempty");
            else if (box[0].M.empty() != box[1].M.empty()) c.st.add("probe.whole_queue_swap_one_empty");
            check_all("a_que_swap");
            break;
        }
        case Q_DROP:
        {
            bool const with_dtor = (o.a[0] & 1) != 0;
            g_dtor_seen.clear(); g_dtor_outside = false;
            int ret = 0;
            int rc = run.api("a_que_drop", [&] { ret = a_que_drop(q, with_dtor ? elem_dtor : nullptr); return ret == 0; }, [&] { return check(x, "a_que_drop"); });
            if (rc == SeqRun::API_VIOLATION || rc == SeqRun::API_FAULTED) break;
            if (rc != SeqRun::API_OK) { c.fail("unexpected-failure", "a_que_drop", "returned %d with memory available", ret); break; }
            if (g_dtor_outside) { c.fail("dtor-outside-storage", "a_que_drop", "element destructor called with a pointer outside owned storage"); break; }
            x.M.clear();
            check(x, "a_que_drop");
            break;
        }
        case Q_SETZ:
        {
            size_t const zreq = ELEM_SIZES[(size_t)(((o.a[0] % 37) + 37) % 37 % N_ELEM_SIZES)];
            bool const with_dtor = (o.a[1] & 1) != 0;
            g_dtor_seen.clear(); g_dtor_outside = false;
            int ret = 0;
            if (norm_z(zreq) > x.z && (len || true)) c.st.add("probe.setz_to_larger_element");
            int rc = run.api("a_que_setz", [&] { ret = a_que_setz(q, zreq, with_dtor ? elem_dtor : nullptr); return ret == 0; }, [&] {
                // a failed setz must leave the previous contents.  One specific way of not doing so has its own class
                // so that it can be listed as a known finding without hiding anything else.
                if (!x.M.empty() && a_que_num(q) == 0 && q->head_.next == &q->head_ && q->head_.prev == &q->head_ && a_que_siz(q) == x.z)
                    return c.fail("failed-setz-emptied-queue", "a_que_setz", "a_que_setz reported failure (allocation failure while regrowing a pooled node) but the %zu enqueued elements are gone; element size unchanged, ring intact", x.M.size());
                return check(x, "a_que_setz"); });
            if (rc == SeqRun::API_VIOLATION || rc == SeqRun::API_FAULTED) break;
            if (rc != SeqRun::API_OK) { c.fail("unexpected-failure", "a_que_setz", "returned %d with memory available", ret); break; }
            if (g_dtor_outside) { c.fail("dtor-outside-storage", "a_que_setz", "element destructor called with a pointer outside owned storage"); break; }
            x.M.clear(); x.z = norm_z(zreq); g_cb_z = x.z;
            if (zreq == 0) c.st.add("probe.zero_element_size");
            check(x, "a_que_setz");
            break;
        }
        case Q_FOREACH:
        {
            std::vector<void *> seen;
            c.site("a_que_foreach");
            { a_que_foreach(unsigned char, *, it, q) { seen.push_back(it); if (seen.size() > len + 2) break; } }
            bool okf = seen.size() == len; for (size_t i = 0; okf && i < len; ++i) okf = seen[i] == x.M[i].addr;
            if (!okf) { c.fail("iteration-wrong", "a_que_foreach", "forward iteration does not yield the model sequence"); break; }
            seen.clear();
            { unsigned char *it, *at; A_QUE_FOREACH(unsigned char *, it, at, q) { seen.push_back(it); if (seen.size() > len + 2) break; } }
            okf = seen.size() == len; for (size_t i = 0; okf && i < len; ++i) okf = seen[i] == x.M[i].addr;
            if (!okf) { c.fail("iteration-wrong", "A_QUE_FOREACH", "forward iteration does not yield the model sequence"); break; }
            seen.clear();
            { a_que_foreach_reverse(unsigned char, *, it, q) { seen.push_back(it); if (seen.size() > len + 2) break; } }
            okf = seen.size() == len; for (size_t i = 0; okf && i < len; ++i) okf = seen[i] == x.M[len - 1 - i].addr;
            if (!okf) { c.fail("iteration-wrong", "a_que_foreach_reverse", "reverse iteration does not yield the reversed model sequence"); break; }
            seen.clear();
            { unsigned char *it, *at; A_QUE_FOREACH_REVERSE(unsigned char *, it, at, q) { seen.push_back(it); if (seen.size() > len + 2) break; } }
            okf = seen.size() == len; for (size_t i = 0; okf && i < len; ++i) okf = seen[i] == x.M[len - 1 - i].addr;
            if (!okf) { c.fail("iteration-wrong", "A_QUE_FOREACH_REVERSE", "reverse iteration does not yield the reversed model sequence"); break; }
            break;
        }
        case Q_RECREATE:
        {
            if (!destroy(x, (o.a[2] & 1) != 0)) break;
            size_t zreq = ELEM_SIZES[(size_t)(((o.a[1] % 37) + 37) % 37 % N_ELEM_SIZES)];
            create(x, (o.a[0] & 1) != 0, zreq);
            if (c.ok()) check(x, "a_que_new");
            break;
        }
        default: break;
        }
    }
};

static inline void gen_que_plan(Rng &r, Plan &p, bool for_faults, int tier)
{
    (void)tier;
    p.set("target", 3);
    p.set("alloc_move", r.chance(1, 2)); p.set("alloc_junk", r.chance(3, 4)); p.set("alloc_reuse", r.chance(1, 4));
    p.set("junk_seed", (int64_t)r.below(256));
    p.set("alloc_default", r.chance(1, 6));
    static const int64_t KS[] = {1, 2, 4, 16, 64, 1000};
    p.set("keyspace", r.pick(KS));
    static const int64_t ML[] = {3, 6, 12, 40, 90, 12, 40, 400};
    p.set("maxlen", r.pick(ML));
    p.set("zsel", gen_zsel(r));
    p.set("heap", r.chance(1, 2));
    p.set("dtor_at_end", r.chance(1, 2));
    p.set("cmpstyle", (int64_t)r.below(3));
    bool const sorted_mode = r.chance(1, 3);
    bool en[Q__COUNT];
    for (int k = 0; k < Q__COUNT; ++k) en[k] = r.chance(1, 2);
    if (sorted_mode) { en[Q_PUSH_FORE] = en[Q_PUSH_BACK] = en[Q_INSERT] = en[Q_SWAP_ELEMS] = false; if (!(en[Q_PUSH_SORT] || en[Q_PUSH_FORE_SORT] || en[Q_PUSH_BACK_SORT])) en[Q_PUSH_SORT + (int)r.below(3)] = true; }
    else if (!(en[Q_PUSH_FORE] || en[Q_PUSH_BACK] || en[Q_INSERT])) en[r.chance(1, 2) ? Q_PUSH_BACK : Q_INSERT] = true;
    if (!(en[Q_PULL_FORE] || en[Q_PULL_BACK] || en[Q_REMOVE])) en[Q_PULL_FORE + (int)r.below(3)] = true;
    if (for_faults) en[Q_BURST] = r.chance(1, 6);
    std::vector<int> kinds;
    for (int k = 0; k < Q__COUNT; ++k) if (en[k]) { kinds.push_back(k); if (k <= Q_REMOVE || (k >= Q_PUSH_SORT && k <= Q_PUSH_BACK_SORT)) { kinds.push_back(k); kinds.push_back(k); } }
    int64_t const nops = for_faults ? r.range(3, 40) : r.geolen(6, 300);
    bool const two = r.chance(1, 2);
    for (int64_t i = 0; i < nops; ++i)
    {
        Op o; o.kind = 200 + kinds[r.below(kinds.size())];
        o.client = two ? (int)r.below(2) : 0;
        for (int k = 0; k < 4; ++k) o.a[k] = (int64_t)r.below(1000);
        if (o.kind == 200 + Q_INSERT || o.kind == 200 + Q_REMOVE || o.kind == 200 + Q_AT) o.a[0] = gen_index_sel(r);
        p.ops.push_back(o);
    }
}

} // namespace sim
