// seq engine, targets `list` and `slist` (C05).  Oracle: DESIGN.md Appendix A.
#pragma once
#include "seq_common.h"
extern "C" {
#include "a/list.h"
#include "a/slist.h"
}

namespace sim {

enum ListOp
{
    L_ADD_NEXT, L_ADD_PREV, L_ADD_NODE, L_ADD_CHAIN, L_DEL_NODE, L_DEL_NEXT, L_DEL_PREV, L_DEL_SECTION, L_SET_NODE, L_SET_SECTION,
    L_MOV_NEXT, L_MOV_PREV, L_ROT_NEXT, L_ROT_PREV, L_SWAP_NODE, L_SWAP_SECTION, L_FOREACH, L_FORSAFE_DELETE, L__COUNT
};
static char const *const LIST_OP_NAMES[] = {"l_add_next", "l_add_prev", "l_add_node", "l_add_chain", "l_del_node", "l_del_next", "l_del_prev", "l_del_section",
                                            "l_set_node", "l_set_section", "l_mov_next", "l_mov_prev", "l_rot_next", "l_rot_prev", "l_swap_node",
                                            "l_swap_section", "l_foreach", "l_forsafe_delete"};

struct LNode { a_list link; int id; };

struct ListTarget
{
    Ctx &c;
    std::vector<LNode *> nodes;
    std::vector<char> attached;
    a_list *head[2] = {nullptr, nullptr};
    std::vector<int> L[2];
    explicit ListTarget(Ctx &c_) : c(c_) {}

    a_list *nd(int id) { return &nodes[(size_t)id]->link; }
    static uint64_t mag(int64_t v) { return (uint64_t)(v < 0 ? -v : v); }
    // ring member by position: 0 = the head sentinel, k = k-th node (1-based)
    a_list *member(int h, size_t pos) { return pos == 0 ? head[h] : nd(L[h][pos - 1]); }
    int id_of(a_list const *p) const
    {
        for (auto *n : nodes) if (&n->link == p) return n->id;
        return -1;
    }
    std::vector<int> take_free(size_t want, uint64_t start)
    {
        std::vector<int> out;
        size_t const n = nodes.size();
        for (size_t k = 0; k < n && out.size() < want; ++k)
        {
            size_t i = (size_t)((start + k) % n);
            if (!attached[i]) out.push_back((int)i);
        }
        return out;
    }

    bool check(int h, char const *site)
    {
        a_list const *hd = head[h];
        std::vector<int> const &M = L[h];
        a_list const *it = hd->next;
        for (size_t i = 0; i < M.size(); ++i)
        {
            if (it == hd) return c.fail("sequence-mismatch", site, "list %d: forward walk returned to the head after %zu of %zu nodes", h, i, M.size());
            int id = id_of(it);
            if (id != M[i]) return c.fail("sequence-mismatch", site, "list %d: position %zu holds node %d, model says %d", h, i, id, M[i]);
            if (it->next->prev != it) return c.fail("links-inconsistent", site, "list %d: node %d: next->prev does not point back", h, id);
            if (it->prev->next != it) return c.fail("links-inconsistent", site, "list %d: node %d: prev->next does not point back", h, id);
            it = it->next;
        }
        if (it != hd) return c.fail("sequence-mismatch", site, "list %d: forward walk does not return to the head after %zu nodes", h, M.size());
        if (hd->next->prev != hd || hd->prev->next != hd) return c.fail("links-inconsistent", site, "list %d: head links do not point back", h);
        it = hd->prev;
        for (size_t i = M.size(); i > 0; --i)
        {
            if (it == hd || id_of(it) != M[i - 1]) return c.fail("links-inconsistent", site, "list %d: backward walk is not the reverse of the forward walk", h);
            it = it->prev;
        }
        if (it != hd) return c.fail("links-inconsistent", site, "list %d: backward walk does not return to the head", h);
        return true;
    }
    bool check_all(char const *site) { return check(0, site) && check(1, site); }

    void exec(Plan const &p)
    {
        SA.reset();
        size_t const N = (size_t)std::max<int64_t>(2, std::min<int64_t>(40, p.knob("nodes", 12)));
        for (size_t i = 0; i < N; ++i)
        {
            LNode *n = (LNode *)SA.halloc(sizeof(LNode));
            n->id = (int)i; n->link.next = n->link.prev = nullptr;
            nodes.push_back(n); attached.push_back(0);
        }
        for (int h = 0; h < 2; ++h) { head[h] = (a_list *)SA.halloc(sizeof(a_list)); a_list_ctor(head[h]); }
        for (size_t i = 0; i < p.ops.size() && c.ok(); ++i)
        {
            Op const &o = p.ops[i];
            c.opi = (int)i;
            c.st.add(std::string("op.list.") + LIST_OP_NAMES[o.kind - 300]);
            c.logf("op %zu %s c=%d a=%lld,%lld,%lld,%lld [len0=%zu len1=%zu]\n", i, LIST_OP_NAMES[o.kind - 300], o.client, (long long)o.a[0], (long long)o.a[1], (long long)o.a[2], (long long)o.a[3], L[0].size(), L[1].size());
            step(o);
            if (c.ok()) check_all(g_shared->site);
            ++c.steps;
            c.obs((uint64_t)o.kind);
            for (int h = 0; h < 2; ++h) { c.obs(L[h].size()); for (int id : L[h]) c.obs((uint64_t)id); }
            c.st.state(fnv_mix(fnv_mix(fnv_mix(FNV0, 300 + (uint64_t)o.kind), L[0].size()), L[1].size()));
        }
    }

    void detach(std::vector<int> const &ids) { for (int id : ids) attached[(size_t)id] = 0; }
    void attach(std::vector<int> const &ids) { for (int id : ids) attached[(size_t)id] = 1; }
    void link_chain(std::vector<int> const &ids)
    {
        for (size_t k = 0; k + 1 < ids.size(); ++k) a_list_link(nd(ids[k]), nd(ids[k + 1]));
    }

    void step(Op const &o)
    {
        int const h = o.client & 1, g = h ^ 1;
        std::vector<int> &M = L[h];
        size_t const len = M.size();
        switch (o.kind - 300)
        {
        case L_ADD_NEXT: case L_ADD_PREV: case L_ADD_NODE:
        {
            auto fr = take_free(1, mag(o.a[1])); if (fr.empty()) break;
            size_t const pos = (size_t)(mag(o.a[0]) % (len + 1));
            a_list *x = member(h, pos);
            int const k = o.kind - 300;
            c.site(k == L_ADD_NEXT ? "a_list_add_next" : k == L_ADD_PREV ? "a_list_add_prev" : "a_list_add_node");
            if (k == L_ADD_NEXT) a_list_add_next(x, nd(fr[0]));
            else if (k == L_ADD_PREV) a_list_add_prev(x, nd(fr[0]));
            else a_list_add_node(x->next, x, nd(fr[0]));
            size_t at = (k == L_ADD_PREV) ? (pos == 0 ? len : pos - 1) : pos;
            M.insert(M.begin() + (long)at, fr[0]);
            attach(fr);
            break;
        }
        case L_ADD_CHAIN:
        {
            auto fr = take_free(1 + (size_t)(mag(o.a[2]) % 3), mag(o.a[1])); if (fr.empty()) break;
            size_t const pos = (size_t)(mag(o.a[0]) % (len + 1));
            a_list *x = member(h, pos);
            link_chain(fr);
            c.site("a_list_loop");
            a_list_loop(nd(fr.front()), nd(fr.back())); // the detached chain is a closed ring of its own before it is spliced in
            if (nd(fr.front())->prev != nd(fr.back()) || nd(fr.back())->next != nd(fr.front())) { c.fail("links-inconsistent", "a_list_loop", "a_list_loop did not close the chain"); break; }
            c.site("a_list_add_");
            a_list_add_(x->next, x, nd(fr.front()), nd(fr.back()));
            M.insert(M.begin() + (long)pos, fr.begin(), fr.end());
            attach(fr);
            c.st.add("probe.list_chain_splice");
            break;
        }
        case L_DEL_NODE:
        {
            if (!len) break;
            size_t const i = (size_t)(mag(o.a[0]) % len);
            c.site("a_list_del_node");
            a_list_del_node(nd(M[i]));
            detach({M[i]}); M.erase(M.begin() + (long)i);
            break;
        }
        case L_DEL_NEXT: case L_DEL_PREV:
        {
            if (!len) break;
            size_t const pos = (size_t)(mag(o.a[0]) % (len + 1));
            a_list *x = member(h, pos);
            bool const nx = (o.kind - 300) == L_DEL_NEXT;
            a_list *victim = nx ? x->next : x->prev;
            if (victim == head[h]) break; // would unlink the sentinel itself
            size_t const vi = nx ? pos : (pos == 0 ? len - 1 : pos - 2); // model index of the victim
            c.site(nx ? "a_list_del_next" : "a_list_del_prev");
            if (nx) a_list_del_next(x); else a_list_del_prev(x);
            detach({M[vi]}); M.erase(M.begin() + (long)vi);
            break;
        }
        case L_DEL_SECTION:
        {
            if (!len) break;
            size_t i = (size_t)(mag(o.a[0]) % len), j = (size_t)(mag(o.a[1]) % len); if (i > j) std::swap(i, j);
            c.site("a_list_del_");
            a_list_del_(nd(M[i]), nd(M[j]));
            std::vector<int> gone(M.begin() + (long)i, M.begin() + (long)j + 1);
            detach(gone); M.erase(M.begin() + (long)i, M.begin() + (long)j + 1);
            c.st.add("probe.list_section_delete");
            break;
        }
        case L_SET_NODE:
        {
            if (!len) break;
            auto fr = take_free(1, mag(o.a[1])); if (fr.empty()) break;
            size_t const i = (size_t)(mag(o.a[0]) % len);
            c.site("a_list_set_node");
            a_list_set_node(nd(M[i]), nd(fr[0]));
            detach({M[i]}); attach(fr); M[i] = fr[0];
            break;
        }
        case L_SET_SECTION:
        {
            if (!len) break;
            auto fr = take_free(1 + (size_t)(mag(o.a[3]) % 3), mag(o.a[2])); if (fr.empty()) break;
            size_t i = (size_t)(mag(o.a[0]) % len), j = (size_t)(mag(o.a[1]) % len); if (i > j) std::swap(i, j);
            link_chain(fr);
            c.site("a_list_set_");
            a_list_set_(nd(M[i]), nd(M[j]), nd(fr.front()), nd(fr.back()));
            std::vector<int> gone(M.begin() + (long)i, M.begin() + (long)j + 1);
            detach(gone); M.erase(M.begin() + (long)i, M.begin() + (long)j + 1);
            M.insert(M.begin() + (long)i, fr.begin(), fr.end()); attach(fr);
            c.st.add("probe.list_section_replace");
            break;
        }
        case L_MOV_NEXT: case L_MOV_PREV:
        {
            if (L[g].empty()) break; // precondition: non-empty source (DESIGN.md 7)
            size_t const pos = (size_t)(mag(o.a[0]) % (len + 1));
            a_list *x = member(h, pos);
            bool const nx = (o.kind - 300) == L_MOV_NEXT;
            c.site(nx ? "a_list_mov_next" : "a_list_mov_prev");
            if (nx) a_list_mov_next(x, head[g]); else a_list_mov_prev(x, head[g]);
            // the source head is re-initialised by the caller, as test/list.h does
            switch (mag(o.a[2]) % 3) { case 0: a_list_init(head[g]); break; case 1: a_list_ctor(head[g]); break; default: a_list_dtor(head[g]); break; }
            size_t at = nx ? pos : (pos == 0 ? len : pos - 1);
            M.insert(M.begin() + (long)at, L[g].begin(), L[g].end());
            L[g].clear();
            c.st.add("probe.list_move_all");
            break;
        }
        case L_ROT_NEXT:
        {
            c.site("a_list_rot_next");
            a_list_rot_next(head[h]);
            if (len > 1) { int last = M.back(); M.pop_back(); M.insert(M.begin(), last); }
            c.st.add(len == 0 ? "probe.list_rot_empty" : len == 1 ? "probe.list_rot_single" : "probe.list_rot_many");
            break;
        }
        case L_ROT_PREV:
        {
            c.site("a_list_rot_prev");
            a_list_rot_prev(head[h]);
            if (len > 1) { int first = M.front(); M.erase(M.begin()); M.push_back(first); }
            c.st.add(len == 0 ? "probe.list_rot_empty" : len == 1 ? "probe.list_rot_single" : "probe.list_rot_many");
            break;
        }
        case L_SWAP_NODE:
        {
            bool const cross = (o.a[2] & 1) != 0 && !L[g].empty();
            if (!len) break;
            size_t i = (size_t)(mag(o.a[0]) % len);
            if (cross)
            {
                size_t j = (size_t)(mag(o.a[1]) % L[g].size());
                c.site("a_list_swap_node");
                a_list_swap_node(nd(M[i]), nd(L[g][j]));
                std::swap(M[i], L[g][j]);
                c.st.add("probe.list_swap_across_lists");
                break;
            }
            size_t j = (size_t)(mag(o.a[1]) % len);
            size_t d = i > j ? i - j : j - i;
            if (d == 1) break; // adjacent nodes are outside the property
            c.site("a_list_swap_node");
            a_list_swap_node(nd(M[i]), nd(M[j]));
            std::swap(M[i], M[j]);
            c.st.add(d == 0 ? "probe.list_swap_node_with_itself" : "probe.list_swap_nodes");
            break;
        }
        case L_SWAP_SECTION:
        {
            bool const cross = (o.a[3] & 1) != 0 && !L[g].empty();
            if (!len) break;
            if (cross)
            {
                size_t i1 = (size_t)(mag(o.a[0]) % len), j1 = (size_t)(mag(o.a[1]) % len); if (i1 > j1) std::swap(i1, j1);
                size_t const gl = L[g].size();
                size_t i2 = (size_t)(mag(o.a[2]) % gl), j2 = (size_t)((mag(o.a[2]) / 7) % gl); if (i2 > j2) std::swap(i2, j2);
                c.site("a_list_swap_");
                a_list_swap_(nd(M[i1]), nd(M[j1]), nd(L[g][i2]), nd(L[g][j2]));
                std::vector<int> s1(M.begin() + (long)i1, M.begin() + (long)j1 + 1), s2(L[g].begin() + (long)i2, L[g].begin() + (long)j2 + 1);
                M.erase(M.begin() + (long)i1, M.begin() + (long)j1 + 1); M.insert(M.begin() + (long)i1, s2.begin(), s2.end());
                L[g].erase(L[g].begin() + (long)i2, L[g].begin() + (long)j2 + 1); L[g].insert(L[g].begin() + (long)i2, s1.begin(), s1.end());
                c.st.add("probe.list_swap_sections_across_lists");
                break;
            }
            if (len < 3) break;
            // four cut points i1 <= j1 < j1+2 <= i2 <= j2 : at least one node between the sections
            size_t pts[4] = {(size_t)(mag(o.a[0]) % len), (size_t)(mag(o.a[1]) % len), (size_t)(mag(o.a[2]) % len), (size_t)((mag(o.a[2]) / 11) % len)};
            std::sort(pts, pts + 4);
            size_t i1 = pts[0], j1 = pts[1], i2 = pts[2], j2 = pts[3];
            if (i2 < j1 + 2) break;
            c.site("a_list_swap_");
            a_list_swap_(nd(M[i1]), nd(M[j1]), nd(M[i2]), nd(M[j2]));
            std::vector<int> s1(M.begin() + (long)i1, M.begin() + (long)j1 + 1), s2(M.begin() + (long)i2, M.begin() + (long)j2 + 1), mid(M.begin() + (long)j1 + 1, M.begin() + (long)i2);
            std::vector<int> nm(M.begin(), M.begin() + (long)i1);
            nm.insert(nm.end(), s2.begin(), s2.end()); nm.insert(nm.end(), mid.begin(), mid.end()); nm.insert(nm.end(), s1.begin(), s1.end());
            nm.insert(nm.end(), M.begin() + (long)j2 + 1, M.end());
            M = nm;
            c.st.add("probe.list_swap_sections");
            break;
        }
        case L_FOREACH:
        {
            a_list *ctx = head[h];
            std::vector<int> fw, bw;
            size_t const lim = len + 2;
            c.site("a_list_foreach_next");
            { a_list_foreach_next(it, ctx) { fw.push_back(id_of(it)); if (fw.size() > lim) break; } }
            { a_list_foreach_prev(it, ctx) { bw.push_back(id_of(it)); if (bw.size() > lim) break; } }
            std::vector<int> rev(M.rbegin(), M.rend());
            if (fw != M || bw != rev) { c.fail("iteration-wrong", "a_list_foreach_next", "lower-case foreach forms do not yield the model sequence / its reverse"); break; }
            fw.clear(); bw.clear();
            c.site("A_LIST_FOREACH_NEXT");
            { a_list *it; A_LIST_FOREACH_NEXT(it, ctx) { fw.push_back(id_of(it)); if (fw.size() > lim) break; } }
            { a_list *it; A_LIST_FOREACH_PREV(it, ctx) { bw.push_back(id_of(it)); if (bw.size() > lim) break; } }
            if (fw != M || bw != rev) { c.fail("iteration-wrong", "A_LIST_FOREACH_NEXT", "upper-case foreach forms do not yield the model sequence / its reverse"); break; }
            fw.clear(); bw.clear();
            c.site("a_list_forsafe_next");
            { a_list_forsafe_next(it, at, ctx) { fw.push_back(id_of(it)); if (fw.size() > lim) break; } }
            { a_list_forsafe_prev(it, at, ctx) { bw.push_back(id_of(it)); if (bw.size() > lim) break; } }
            if (fw != M || bw != rev) { c.fail("iteration-wrong", "a_list_forsafe_next", "lower-case forsafe forms do not yield the model sequence / its reverse"); break; }
            fw.clear(); bw.clear();
            c.site("A_LIST_FORSAFE_NEXT");
            { a_list *it, *at; A_LIST_FORSAFE_NEXT(it, at, ctx) { fw.push_back(id_of(it)); if (fw.size() > lim) break; } }
            { a_list *it, *at; A_LIST_FORSAFE_PREV(it, at, ctx) { bw.push_back(id_of(it)); if (bw.size() > lim) break; } }
            if (fw != M || bw != rev) { c.fail("iteration-wrong", "A_LIST_FORSAFE_NEXT", "upper-case forsafe forms do not yield the model sequence / its reverse"); break; }
            { // the list argument of the macros may be any expression (here a conditional one), not only an identifier
                a_list *const pick = (o.a[1] & 1) ? ctx : nullptr, *const other = ctx; // a pointer-typed condition: an unparenthesised macro parameter still compiles, and loops
                fw.clear(); bw.clear();
                c.site("a_list_foreach_next");
                { a_list_foreach_next(it, pick ? ctx : other) { fw.push_back(id_of(it)); if (fw.size() > lim) break; } }
                { a_list_foreach_prev(it, pick ? ctx : other) { bw.push_back(id_of(it)); if (bw.size() > lim) break; } }
                if (fw != M || bw != rev) { c.fail("iteration-wrong", "a_list_foreach_next", "foreach macros with an expression as list argument do not yield the model sequence / its reverse"); break; }
                fw.clear(); bw.clear();
                { a_list *it, *at; A_LIST_FORSAFE_NEXT(it, at, pick ? ctx : other) { fw.push_back(id_of(it)); if (fw.size() > lim) break; } }
                { a_list *it, *at; A_LIST_FORSAFE_PREV(it, at, pick ? ctx : other) { bw.push_back(id_of(it)); if (bw.size() > lim) break; } }
                if (fw != M || bw != rev) { c.fail("iteration-wrong", "A_LIST_FORSAFE_NEXT", "forsafe macros with an expression as list argument do not yield the model sequence / its reverse"); break; }
                fw.clear(); bw.clear();
                { a_list *it; A_LIST_FOREACH_NEXT(it, pick ? ctx : other) { fw.push_back(id_of(it)); if (fw.size() > lim) break; } }
                { a_list_forsafe_prev(it, at, pick ? ctx : other) { bw.push_back(id_of(it)); if (bw.size() > lim) break; } }
                if (fw != M || bw != rev) { c.fail("iteration-wrong", "A_LIST_FOREACH_NEXT", "iteration macros with an expression as list argument do not yield the model sequence / its reverse"); break; }
                c.st.add("probe.list_macros_with_expression_argument");
            }
            break;
        }
        case L_FORSAFE_DELETE:
        {
            // the safe forms allow unlinking (and scribbling over) the current node inside the body
            a_list *ctx = head[h];
            uint64_t const mask = mag(o.a[0]) | 1;
            bool const fwd = (o.a[1] & 1) == 0;
            std::vector<int> keep, seen;
            size_t k = 0;
            c.site(fwd ? "A_LIST_FORSAFE_NEXT" : "A_LIST_FORSAFE_PREV");
            a_list *it, *at;
            if (fwd)
            {
                A_LIST_FORSAFE_NEXT(it, at, ctx)
                {
                    int id = id_of(it); seen.push_back(id);
                    if ((mask >> (k % 16)) & 1) { a_list_del_node(it); it->next = it->prev = nullptr; attached[(size_t)id] = 0; }
                    else keep.push_back(id);
                    if (++k > len + 2) break;
                }
                if (seen != M) { c.fail("iteration-wrong", "A_LIST_FORSAFE_NEXT", "forsafe with deletion did not visit the model sequence"); break; }
                M = keep;
            }
            else
            {
                A_LIST_FORSAFE_PREV(it, at, ctx)
                {
                    int id = id_of(it); seen.push_back(id);
                    if ((mask >> (k % 16)) & 1) { a_list_del_node(it); it->next = it->prev = nullptr; attached[(size_t)id] = 0; }
                    else keep.push_back(id);
                    if (++k > len + 2) break;
                }
                std::vector<int> rev(M.rbegin(), M.rend());
                if (seen != rev) { c.fail("iteration-wrong", "A_LIST_FORSAFE_PREV", "forsafe with deletion did not visit the reversed model sequence"); break; }
                M.assign(keep.rbegin(), keep.rend());
            }
            c.st.add("probe.list_forsafe_with_deletion");
            break;
        }
        default: break;
        }
    }
};

static inline void gen_list_plan(Rng &r, Plan &p, int tier)
{
    (void)tier;
    p.set("target", 4);
    static const int64_t NN[] = {2, 3, 5, 8, 12, 24, 40};
    p.set("nodes", r.pick(NN));
    bool en[L__COUNT];
    for (int k = 0; k < L__COUNT; ++k) en[k] = r.chance(1, 2);
    if (!(en[L_ADD_NEXT] || en[L_ADD_PREV] || en[L_ADD_NODE] || en[L_ADD_CHAIN])) en[L_ADD_NEXT + (int)r.below(4)] = true;
    std::vector<int> kinds;
    for (int k = 0; k < L__COUNT; ++k) if (en[k]) { kinds.push_back(k); if (k <= L_ADD_CHAIN) kinds.push_back(k); }
    int64_t const nops = r.geolen(4, 300);
    bool const two = r.chance(2, 3);
    for (int64_t i = 0; i < nops; ++i)
    {
        Op o; o.kind = 300 + kinds[r.below(kinds.size())];
        o.client = two ? (int)r.below(2) : 0;
        for (int k = 0; k < 4; ++k) o.a[k] = (int64_t)r.below(1000);
        p.ops.push_back(o);
    }
}

// ---------------------------------------------------------------------------------------------- slist
enum SlistOp { SL_ADD, SL_ADD_HEAD, SL_ADD_TAIL, SL_DEL, SL_DEL_HEAD, SL_MOV, SL_ROT, SL_FOREACH, SL_FORSAFE_DELETE, SL__COUNT };
static char const *const SLIST_OP_NAMES[] = {"sl_add", "sl_add_head", "sl_add_tail", "sl_del", "sl_del_head", "sl_mov", "sl_rot", "sl_foreach", "sl_forsafe_delete"};
struct SNode { a_slist_node link; int id; };

struct SlistTarget
{
    Ctx &c;
    std::vector<SNode *> nodes;
    std::vector<char> attached;
    a_slist *list[2] = {nullptr, nullptr};
    std::vector<int> L[2];
    explicit SlistTarget(Ctx &c_) : c(c_) {}
    a_slist_node *nd(int id) { return &nodes[(size_t)id]->link; }
    static uint64_t mag(int64_t v) { return (uint64_t)(v < 0 ? -v : v); }
    a_slist_node *member(int h, size_t pos) { return pos == 0 ? &list[h]->head : nd(L[h][pos - 1]); }
    int id_of(a_slist_node const *p) const { for (auto *n : nodes) if (&n->link == p) return n->id; return -1; }
    int take_free(uint64_t start)
    {
        size_t const n = nodes.size();
        for (size_t k = 0; k < n; ++k) { size_t i = (size_t)((start + k) % n); if (!attached[i]) return (int)i; }
        return -1;
    }
    bool check(int h, char const *site)
    {
        a_slist const *l = list[h];
        std::vector<int> const &M = L[h];
        a_slist_node const *it = l->head.next;
        a_slist_node const *last = &l->head;
        for (size_t i = 0; i < M.size(); ++i)
        {
            if (!it) return c.fail("sequence-mismatch", site, "slist %d: chain ends after %zu of %zu nodes", h, i, M.size());
            int id = id_of(it);
            if (id != M[i]) return c.fail("sequence-mismatch", site, "slist %d: position %zu holds node %d, model says %d", h, i, id, M[i]);
            last = it; it = it->next;
        }
        if (it) return c.fail("sequence-mismatch", site, "slist %d: chain continues beyond the %zu model nodes (node %d)", h, M.size(), id_of(it));
        if (l->tail != last) return c.fail("tail-wrong", site, "slist %d: tail does not designate the last node (%zu nodes)", h, M.size());
        return true;
    }
    bool check_all(char const *site) { return check(0, site) && check(1, site); }

    void exec(Plan const &p)
    {
        SA.reset();
        size_t const N = (size_t)std::max<int64_t>(1, std::min<int64_t>(40, p.knob("nodes", 8)));
        for (size_t i = 0; i < N; ++i) { SNode *n = (SNode *)SA.halloc(sizeof(SNode)); n->id = (int)i; n->link.next = nullptr; nodes.push_back(n); attached.push_back(0); }
        for (int h = 0; h < 2; ++h) { list[h] = (a_slist *)SA.halloc(sizeof(a_slist)); a_slist_ctor(list[h]); }
        for (size_t i = 0; i < p.ops.size() && c.ok(); ++i)
        {
            Op const &o = p.ops[i];
            c.opi = (int)i;
            c.st.add(std::string("op.slist.") + SLIST_OP_NAMES[o.kind - 400]);
            c.logf("op %zu %s c=%d a=%lld,%lld [len0=%zu len1=%zu]\n", i, SLIST_OP_NAMES[o.kind - 400], o.client, (long long)o.a[0], (long long)o.a[1], L[0].size(), L[1].size());
            step(o);
            if (c.ok()) check_all(g_shared->site);
            ++c.steps;
            c.obs((uint64_t)o.kind);
            for (int h = 0; h < 2; ++h) { c.obs(L[h].size()); for (int id : L[h]) c.obs((uint64_t)id); }
            c.st.state(fnv_mix(fnv_mix(fnv_mix(FNV0, 400 + (uint64_t)o.kind), L[0].size()), L[1].size()));
        }
    }
    void step(Op const &o)
    {
        int const h = o.client & 1, g = h ^ 1;
        std::vector<int> &M = L[h];
        size_t const len = M.size();
        a_slist *l = list[h];
        switch (o.kind - 400)
        {
        case SL_ADD:
        {
            int n = take_free(mag(o.a[1])); if (n < 0) break;
            size_t const pos = (size_t)(mag(o.a[0]) % (len + 1));
            c.site("a_slist_add");
            a_slist_add(l, member(h, pos), nd(n));
            M.insert(M.begin() + (long)pos, n); attached[(size_t)n] = 1;
            if (pos == len) c.st.add("probe.slist_add_after_last");
            break;
        }
        case SL_ADD_HEAD: { int n = take_free(mag(o.a[1])); if (n < 0) break; c.site("a_slist_add_head"); a_slist_add_head(l, nd(n)); M.insert(M.begin(), n); attached[(size_t)n] = 1; break; }
        case SL_ADD_TAIL: { int n = take_free(mag(o.a[1])); if (n < 0) break; c.site("a_slist_add_tail"); a_slist_add_tail(l, nd(n)); M.push_back(n); attached[(size_t)n] = 1; break; }
        case SL_DEL:
        {
            size_t const pos = (size_t)(mag(o.a[0]) % (len + 1));
            c.site("a_slist_del");
            a_slist_del(l, member(h, pos));
            if (pos < len) { attached[(size_t)M[pos]] = 0; M.erase(M.begin() + (long)pos); if (pos == len - 1) c.st.add("probe.slist_del_last"); }
            else c.st.add("probe.slist_del_after_last_noop");
            break;
        }
        case SL_DEL_HEAD:
        {
            c.site("a_slist_del_head");
            a_slist_del_head(l);
            if (len) { attached[(size_t)M[0]] = 0; M.erase(M.begin()); }
            break;
        }
        case SL_MOV:
        {
            size_t const pos = (size_t)(mag(o.a[0]) % (len + 1));
            c.site("a_slist_mov");
            a_slist_mov(list[g], l, member(h, pos));
            // the source is re-initialised by the caller (all three spellings do the same thing)
            switch (mag(o.a[2]) % 3) { case 0: a_slist_init(list[g]); break; case 1: a_slist_ctor(list[g]); break; default: a_slist_dtor(list[g]); break; }
            M.insert(M.begin() + (long)pos, L[g].begin(), L[g].end());
            if (L[g].empty()) c.st.add("probe.slist_mov_empty_source"); else c.st.add(pos == len ? "probe.slist_mov_to_end" : "probe.slist_mov_inside");
            L[g].clear();
            break;
        }
        case SL_ROT:
        {
            c.site("a_slist_rot");
            a_slist_rot(l);
            if (len > 1) { int f = M.front(); M.erase(M.begin()); M.push_back(f); }
            c.st.add(len == 0 ? "probe.slist_rot_empty" : len == 1 ? "probe.slist_rot_single" : "probe.slist_rot_many");
            break;
        }
        case SL_FOREACH:
        {
            std::vector<int> a, b, d, e;
            size_t const lim = len + 2;
            c.site("a_slist_foreach");
            { a_slist_foreach(it, l) { a.push_back(id_of(it)); if (a.size() > lim) break; } }
            { a_slist_node *it; A_SLIST_FOREACH(it, l) { b.push_back(id_of(it)); if (b.size() > lim) break; } }
            { a_slist_forsafe(it, at, l) { d.push_back(id_of(it)); if (d.size() > lim) break; } }
            { a_slist_node *it, *at; A_SLIST_FORSAFE(it, at, l) { e.push_back(id_of(it)); if (e.size() > lim) break; } }
            if (a != M || b != M || d != M || e != M) c.fail("iteration-wrong", "a_slist_foreach", "a foreach/forsafe form does not yield the model sequence");
            break;
        }
        case SL_FORSAFE_DELETE:
        {
            uint64_t const mask = mag(o.a[0]) | 1;
            std::vector<int> keep, seen; size_t k = 0;
            c.site("A_SLIST_FORSAFE");
#define FORSAFE_BODY                                                                                                       \
    {                                                                                                                      \
        int id = id_of(it); seen.push_back(id);                                                                            \
        if ((mask >> (k % 16)) & 1) { a_slist_del(l, at); it->next = nullptr; attached[(size_t)id] = 0; it = A_NULL; }     \
        else keep.push_back(id);                                                                                           \
        if (++k > len + 2) break;                                                                                          \
    }
            if (o.a[1] & 1)
            { // the cursor-declaring lower-case form
                c.st.add("probe.slist_forsafe_lower_case_with_deletion");
                a_slist_forsafe(it, at, l) FORSAFE_BODY
            }
            else
            {
                a_slist_node *it, *at;
                A_SLIST_FORSAFE(it, at, l) FORSAFE_BODY
            }
#undef FORSAFE_BODY
            if (seen != M) { c.fail("iteration-wrong", "A_SLIST_FORSAFE", "forsafe with deletion did not visit the model sequence"); break; }
            M = keep;
            c.st.add("probe.slist_forsafe_with_deletion");
            break;
        }
        default: break;
        }
    }
};

static inline void gen_slist_plan(Rng &r, Plan &p, int tier)
{
    (void)tier;
    p.set("target", 5);
    static const int64_t NN[] = {1, 2, 3, 5, 8, 16, 40};
    p.set("nodes", r.pick(NN));
    bool en[SL__COUNT];
    for (int k = 0; k < SL__COUNT; ++k) en[k] = r.chance(1, 2);
    if (!(en[SL_ADD] || en[SL_ADD_HEAD] || en[SL_ADD_TAIL])) en[SL_ADD + (int)r.below(3)] = true;
    std::vector<int> kinds;
    for (int k = 0; k < SL__COUNT; ++k) if (en[k]) { kinds.push_back(k); if (k <= SL_ADD_TAIL) kinds.push_back(k); }
    int64_t const nops = r.geolen(3, 200);
    bool const two = r.chance(2, 3);
    for (int64_t i = 0; i < nops; ++i)
    {
        Op o; o.kind = 400 + kinds[r.below(kinds.size())];
        o.client = two ? (int)r.below(2) : 0;
        for (int k = 0; k < 4; ++k) o.a[k] = (int64_t)r.below(1000);
        p.ops.push_back(o);
    }
}

} // namespace sim
