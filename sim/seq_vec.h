// seq engine, targets `vec` and `buf` (C04, and C07 with faults).  Oracle: DESIGN.md Appendix A.
#pragma once
#include "seq_common.h"
extern "C" {
#include "a/vec.h"
#include "a/buf.h"
}

namespace sim {

enum VecOp
{
    V_PUSH_BACK, V_PUSH_FORE, V_INSERT, V_PULL_BACK, V_PULL_FORE, V_REMOVE, V_STORE, V_ERASE, V_SETN, V_SETM, V_SETZ,
    V_SORT, V_PUSH_FORE_SORT, V_PUSH_BACK_SORT, V_PUSH_SORT, V_SEARCH, V_ACCESS, V_SWAP, V_FILL_TO_CAP, V_LEAVE_ONE_SPARE,
    V_RECREATE, V__COUNT
};
static char const *const VEC_OP_NAMES[] = {
    "push_back", "push_fore", "insert", "pull_back", "pull_fore", "remove", "store", "erase", "setn", "setm", "setz",
    "sort", "push_fore_sort", "push_back_sort", "push_sort", "search", "access", "swap", "fill_to_cap", "leave_one_spare",
    "recreate"};

struct VecBox
{
    bool is_buf = false;
    a_vec *v = nullptr;
    a_buf *b = nullptr;
    bool heap = false;  // created by *_new (library owns the header) vs *_ctor on harness storage
    size_t z = 4;
    size_t c = 0; // buf: capacity as the model knows it
    std::vector<std::string> M;

    size_t num() const { return is_buf ? a_buf_num(b) : a_vec_num(v); }
    size_t mem() const { return is_buf ? a_buf_mem(b) : a_vec_mem(v); }
    size_t siz() const { return is_buf ? a_buf_siz(b) : a_vec_siz(v); }
    unsigned char *base() const { return (unsigned char *)(is_buf ? a_buf_ptr(b) : a_vec_ptr(v)); }
    bool exists() const { return is_buf ? b != nullptr : v != nullptr; }
};

struct VecTarget
{
    Ctx &c;
    SeqRun run;
    bool is_buf;
    VecBox box[2];
    uint64_t stamp = 0;
    uint32_t keyspace = 16;
    size_t maxlen = 48;
    char const *P; // name prefix for sites
    bool mac = false; // this op goes through the typed upper-case macro forms (A_VEC_PUSH_BACK(T, ctx) ...) instead of the functions
    int64_t bern_permille = 0; uint64_t bern_seed = 0;

    VecTarget(Ctx &c_, bool buf) : c(c_), run(c_), is_buf(buf), P(buf ? "a_buf_" : "a_vec_") {}

    std::string nm(char const *f) const { return std::string(P) + f; }

    std::string fresh(VecBox &x, int64_t key) { return make_elem(x.z, (uint32_t)((uint64_t)(key < 0 ? -key : key) % keyspace), ++stamp); }

    // ---------------------------------------------------------------- invariants
    bool check(VecBox &x, char const *site)
    {
        if (!x.exists()) return true;
        if (!SA.err_cls.empty()) return c.fail(SA.err_cls.c_str(), site, "%s", SA.err_detail.c_str());
        if (uint64_t bad = SA.check_guards()) return c.fail("guard-damaged", site, "bytes next to block #%llu were overwritten", (unsigned long long)bad);
        size_t const n = x.num(), m = x.mem(), s = x.siz();
        if (s != x.z) return c.fail("element-size-mismatch", site, "element size is %zu, expected %zu", s, x.z);
        if (n > m) return c.fail("count-exceeds-capacity", site, "count %zu > capacity %zu", n, m);
        if (x.is_buf)
        {
            SimAlloc::Block const *blk = SA.block_at(x.b);
            if (!blk) return c.fail("storage-not-owned", site, "buffer header is not a live block");
            if (m && (m > (SIZE_MAX - sizeof(a_buf)) / s || sizeof(a_buf) + s * m > blk->size))
                return c.fail("capacity-exceeds-storage", site, "capacity %zu x %zu bytes + header does not fit the %zu-byte block", m, s, blk->size);
            if (m != x.c) return c.fail("capacity-mismatch", site, "buffer capacity %zu, model %zu", m, x.c);
        }
        else if (m)
        {
            SimAlloc::Block const *blk = SA.block_at(a_vec_ptr(x.v));
            if (!blk) return c.fail("storage-not-owned", site, "vector storage is not a live block (capacity %zu)", m);
            if (m > SIZE_MAX / s || s * m > blk->size) return c.fail("capacity-exceeds-storage", site, "capacity %zu x %zu bytes does not fit the %zu-byte block", m, s, blk->size);
        }
        if (n != x.M.size()) return c.fail("length-mismatch", site, "count %zu, model %zu", n, x.M.size());
        unsigned char const *p = x.base();
        for (size_t i = 0; i < n; ++i)
            if (memcmp(p + i * s, x.M[i].data(), s) != 0) return c.fail("content-mismatch", site, "element %zu of %zu differs from the model", i, n);
        return true;
    }
    bool check_all(char const *site) { return check(box[0], site) && check(box[1], site); }

    void observe(VecBox &x)
    {
        c.obs(x.M.size()); c.obs(x.z);
        for (auto const &e : x.M) c.obs_bytes(e.data(), e.size());
        size_t spare = x.exists() ? x.mem() - x.num() : 0;
        c.st.state(fnv_mix(fnv_mix(fnv_mix(fnv_mix(FNV0, is_buf), x.z), x.M.size()), (spare > 2 ? 2 : spare) * 2 + model_sorted(x.M, x.z)));
    }

    // ---------------------------------------------------------------- creation / destruction
    bool create(VecBox &x, bool heap, size_t zreq, size_t cap)
    {
        x.is_buf = is_buf; x.heap = heap; x.z = norm_z(zreq); x.M.clear(); x.c = cap;
        g_cb_z = x.z;
        if (is_buf)
        {
            if (heap)
            {
                a_buf *nb = nullptr;
                int rc = run.api("a_buf_new", [&] { nb = a_buf_new(zreq, cap); return nb != nullptr; }, [&] { return true; });
                if (rc == SeqRun::API_VIOLATION) return false;
                if (rc != SeqRun::API_OK)
                { // persistent failure: fall back to harness storage so the history can go on
                    c.st.add("probe.header_alloc_failed");
                    x.heap = false;
                    x.b = (a_buf *)SA.halloc(sizeof(a_buf) + x.z * cap);
                    a_buf_ctor(x.b, zreq, cap);
                }
                else x.b = nb;
            }
            else
            {
                x.b = (a_buf *)SA.halloc(sizeof(a_buf) + x.z * cap);
                c.site("a_buf_ctor");
                a_buf_ctor(x.b, zreq, cap);
            }
        }
        else
        {
            if (heap)
            {
                a_vec *nv = nullptr;
                int rc = run.api("a_vec_new", [&] { nv = a_vec_new(zreq); return nv != nullptr; }, [&] { return true; });
                if (rc == SeqRun::API_VIOLATION) return false;
                if (rc != SeqRun::API_OK)
                {
                    c.st.add("probe.header_alloc_failed");
                    x.heap = false;
                    x.v = (a_vec *)SA.halloc(sizeof(a_vec));
                    a_vec_ctor(x.v, zreq);
                }
                else x.v = nv;
            }
            else
            {
                x.v = (a_vec *)SA.halloc(sizeof(a_vec));
                c.site("a_vec_ctor");
                a_vec_ctor(x.v, zreq);
            }
        }
        return true;
    }
    bool destroy(VecBox &x, bool with_dtor)
    {
        if (!x.exists()) return true;
        g_cb_z = x.z; g_dtor_seen.clear(); g_dtor_outside = false;
        std::vector<std::string> expect = x.M;
        void (*d)(void *) = with_dtor ? elem_dtor : nullptr;
        if (is_buf)
        {
            if (x.heap) { c.site("a_buf_die"); a_buf_die(x.b, d); }
            else { c.site("a_buf_dtor"); a_buf_dtor(x.b, d); SA.hfree(x.b); }
            x.b = nullptr;
        }
        else
        {
            if (x.heap) { c.site("a_vec_die"); a_vec_die(x.v, d); }
            else { c.site("a_vec_dtor"); a_vec_dtor(x.v, d); SA.hfree(x.v); }
            x.v = nullptr;
        }
        if (with_dtor && !dtor_subset(expect, is_buf ? "a_buf_dtor" : "a_vec_dtor")) return false;
        x.M.clear();
        if (!SA.err_cls.empty()) return c.fail(SA.err_cls.c_str(), is_buf ? "a_buf_die" : "a_vec_die", "%s", SA.err_detail.c_str());
        return true;
    }
    // every destructor call must have hit an element that this operation removes
    bool dtor_subset(std::vector<std::string> removed, char const *site)
    {
        if (g_dtor_outside) return c.fail("dtor-outside-storage", site, "element destructor called with a pointer outside owned storage");
        for (auto const &s : g_dtor_seen)
        {
            auto it = std::find(removed.begin(), removed.end(), s);
            if (it == removed.end()) return c.fail("dtor-wrong-element", site, "element destructor called on an element that the operation does not remove");
            removed.erase(it);
        }
        return true;
    }

    // ---------------------------------------------------------------- single API steps with the model
    // a slot-producing call (push/insert): writes a fresh element through the returned pointer
    bool do_insert(VecBox &x, int which, size_t idx, int64_t key)
    {
        g_cb_z = x.z;
        void *p = nullptr;
        std::string const name = nm(which == 0 ? "push_back" : which == 1 ? "push_fore" : "insert");
        bool const full = is_buf && x.M.size() >= x.c;
        int rc = run.api(name.c_str(), [&] {
            typedef unsigned char UC;
            if (mac)
            {
                if (is_buf) p = which == 0 ? (((idx ^ (size_t)key) & 1) ? A_BUF_PUSH(UC, x.b) : A_BUF_PUSH_BACK(UC, x.b)) : which == 1 ? A_BUF_PUSH_FORE(UC, x.b) : A_BUF_INSERT(UC, x.b, idx);
                else p = which == 0 ? (((idx ^ (size_t)key) & 1) ? A_VEC_PUSH(UC, x.v) : A_VEC_PUSH_BACK(UC, x.v)) : which == 1 ? A_VEC_PUSH_FORE(UC, x.v) : A_VEC_INSERT(UC, x.v, idx);
            }
            else if (is_buf) p = which == 0 ? a_buf_push_back(x.b) : which == 1 ? a_buf_push_fore(x.b) : a_buf_insert(x.b, idx);
            else p = which == 0 ? a_vec_push_back(x.v) : which == 1 ? a_vec_push_fore(x.v) : a_vec_insert(x.v, idx);
            return p != nullptr; }, [&] { return check(x, name.c_str()); });
        if (mac) c.st.add("probe.typed_macro_form");
        if (rc == SeqRun::API_VIOLATION) return false;
        if (rc == SeqRun::API_FAULTED) return true;
        if (full)
        {
            c.st.add("probe.buf_refused_full");
            if (rc == SeqRun::API_OK) return c.fail("full-buffer-accepted-element", name.c_str(), "buffer at capacity %zu returned a slot", x.c);
            return check(x, name.c_str());
        }
        if (rc != SeqRun::API_OK) return c.fail("unexpected-failure", name.c_str(), "returned NULL although the element fits and memory is available");
        if (!SA.owns(p, x.z)) return c.fail("returned-pointer-outside-storage", name.c_str(), "returned slot does not lie inside owned storage");
        size_t const pos = which == 0 ? x.M.size() : which == 1 ? 0 : std::min(idx, x.M.size());
        std::string e = fresh(x, key);
        memcpy(p, e.data(), x.z);
        x.M.insert(x.M.begin() + (long)pos, e);
        return check(x, name.c_str());
    }
    bool do_remove(VecBox &x, int which, size_t idx)
    {
        g_cb_z = x.z;
        void *p = nullptr;
        std::string const name = nm(which == 0 ? "pull_back" : which == 1 ? "pull_fore" : "remove");
        if (x.M.size() > 1 && (which != 0)) c.st.add(x.num() < x.mem() ? "probe.remove_spare_slot_path" : "probe.remove_exactly_full_path");
        c.site(name.c_str());
        typedef unsigned char UC;
        if (mac)
        {
            c.st.add("probe.typed_macro_form");
            if (is_buf) p = which == 0 ? ((idx & 1) ? A_BUF_PULL(UC, x.b) : A_BUF_PULL_BACK(UC, x.b)) : which == 1 ? A_BUF_PULL_FORE(UC, x.b) : A_BUF_REMOVE(UC, x.b, idx);
            else p = which == 0 ? ((idx & 1) ? A_VEC_PULL(UC, x.v) : A_VEC_PULL_BACK(UC, x.v)) : which == 1 ? A_VEC_PULL_FORE(UC, x.v) : A_VEC_REMOVE(UC, x.v, idx);
        }
        else if (is_buf) p = which == 0 ? a_buf_pull_back(x.b) : which == 1 ? a_buf_pull_fore(x.b) : a_buf_remove(x.b, idx);
        else p = which == 0 ? a_vec_pull_back(x.v) : which == 1 ? a_vec_pull_fore(x.v) : a_vec_remove(x.v, idx);
        if (x.M.empty())
        {
            if (p) return c.fail("remove-from-empty-returned-element", name.c_str(), "returned a pointer although the sequence is empty");
            return check(x, name.c_str());
        }
        if (!p) return c.fail("unexpected-failure", name.c_str(), "returned NULL on a non-empty sequence");
        size_t pos = which == 0 ? x.M.size() - 1 : which == 1 ? 0 : idx;
        if (pos >= x.M.size() - 1) pos = x.M.size() - 1;
        if (!SA.owns(p, x.z)) return c.fail("returned-pointer-outside-storage", name.c_str(), "removed-element pointer does not lie inside owned storage");
        if (memcmp(p, x.M[pos].data(), x.z) != 0) return c.fail("removed-element-not-intact", name.c_str(), "bytes at the returned pointer differ from the element removed (position %zu of %zu)", pos, x.M.size());
        x.M.erase(x.M.begin() + (long)pos);
        return check(x, name.c_str());
    }
    bool do_sort(VecBox &x)
    {
        g_cb_z = x.z;
        std::string const name = nm("sort");
        c.site(name.c_str());
        if (is_buf) a_buf_sort(x.b, elem_cmp); else a_vec_sort(x.v, elem_cmp);
        return adopt_sorted(x, x.M, name.c_str());
    }
    // real content must be sorted and the same multiset as `want`; the model adopts the real order
    bool adopt_sorted(VecBox &x, std::vector<std::string> want, char const *site)
    {
        size_t const n = x.num();
        if (n > x.mem()) return c.fail("count-exceeds-capacity", site, "count %zu > capacity %zu", n, x.mem());
        if (n != want.size()) return c.fail("length-mismatch", site, "count %zu, model %zu", n, want.size());
        std::vector<std::string> got;
        unsigned char const *p = x.base();
        for (size_t i = 0; i < n; ++i) got.push_back(std::string((char const *)p + i * x.z, x.z));
        if (!model_sorted(got, x.z)) return c.fail("not-sorted", site, "sequence is not in non-decreasing key order afterwards");
        std::vector<std::string> a = got, b = want;
        std::sort(a.begin(), a.end()); std::sort(b.begin(), b.end());
        if (a != b) return c.fail("elements-lost-or-altered", site, "multiset of elements differs from the model");
        x.M = got;
        return check(x, site);
    }
    bool ensure_sorted(VecBox &x)
    {
        if (model_sorted(x.M, x.z)) return true;
        return do_sort(x);
    }
    bool do_sorted_insert(VecBox &x, int which, int64_t key)
    {
        if (!ensure_sorted(x)) return false;
        g_cb_z = x.z;
        std::string e = fresh(x, key);
        std::vector<std::string> want = x.M; want.push_back(e);
        bool const full = is_buf && x.M.size() >= x.c;
        if (which == 2)
        {
            std::string const name = nm("push_sort");
            void *p = nullptr;
            g_cmp_key = e.data(); g_cmp_key_on_left = false;
            int rc = run.api(name.c_str(), [&] {
                if (mac) p = is_buf ? A_BUF_PUSH_SORT(unsigned char, x.b, e.data(), elem_cmp) : A_VEC_PUSH_SORT(unsigned char, x.v, e.data(), elem_cmp);
                else p = is_buf ? a_buf_push_sort(x.b, e.data(), elem_cmp) : a_vec_push_sort(x.v, e.data(), elem_cmp);
                return p != nullptr; }, [&] { return check(x, name.c_str()); });
            g_cmp_key = nullptr;
            if (g_cmp_key_on_left && rc != SeqRun::API_VIOLATION) return c.fail("key-passed-on-the-left", name.c_str(), "the comparator received the caller's key as its left argument; the documentation puts the key on the right");
            if (rc == SeqRun::API_VIOLATION) return false;
            if (rc == SeqRun::API_FAULTED) return true;
            if (full) { c.st.add("probe.buf_refused_full"); if (rc == SeqRun::API_OK) return c.fail("full-buffer-accepted-element", name.c_str(), "buffer at capacity returned a slot"); return check(x, name.c_str()); }
            if (rc != SeqRun::API_OK) return c.fail("unexpected-failure", name.c_str(), "returned NULL although the element fits");
            if (!SA.owns(p, x.z)) return c.fail("returned-pointer-outside-storage", name.c_str(), "returned slot does not lie inside owned storage");
            memcpy(p, e.data(), x.z);
            return adopt_sorted(x, want, name.c_str());
        }
        if (((uint64_t)(key < 0 ? -key : key) >> 5) % 6 == 5)
        { // the re-sorting step alone on a sequence that is sorted already, empty and one-element sequences included: nothing may change
            std::string const sname0 = nm(which == 0 ? "sort_fore" : "sort_back");
            c.st.add(x.M.empty() ? "probe.sort_step_on_empty_sequence" : x.M.size() == 1 ? "probe.sort_step_on_single_element" : "probe.sort_step_on_sorted_sequence");
            c.site(sname0.c_str());
            std::vector<std::string> const before = x.M;
            if (is_buf) { if (which == 0) a_buf_sort_fore(x.b, elem_cmp); else a_buf_sort_back(x.b, elem_cmp); }
            else { if (which == 0) a_vec_sort_fore(x.v, elem_cmp); else a_vec_sort_back(x.v, elem_cmp); }
            return adopt_sorted(x, before, sname0.c_str());
        }
        // push_fore + sort_fore   /   push_back + sort_back
        std::string const pname = nm(which == 0 ? "push_fore" : "push_back");
        void *p = nullptr;
        int rc = run.api(pname.c_str(), [&] {
            if (is_buf) p = which == 0 ? a_buf_push_fore(x.b) : a_buf_push_back(x.b);
            else p = which == 0 ? a_vec_push_fore(x.v) : a_vec_push_back(x.v);
            return p != nullptr; }, [&] { return check(x, pname.c_str()); });
        if (rc == SeqRun::API_VIOLATION) return false;
        if (rc == SeqRun::API_FAULTED) return true;
        if (full) { if (rc == SeqRun::API_OK) return c.fail("full-buffer-accepted-element", pname.c_str(), "buffer at capacity returned a slot"); return check(x, pname.c_str()); }
        if (rc != SeqRun::API_OK) return c.fail("unexpected-failure", pname.c_str(), "returned NULL although the element fits");
        if (!SA.owns(p, x.z)) return c.fail("returned-pointer-outside-storage", pname.c_str(), "returned slot does not lie inside owned storage");
        memcpy(p, e.data(), x.z);
        if (which == 0) x.M.insert(x.M.begin(), e); else x.M.push_back(e);
        if (!check(x, pname.c_str())) return false;
        std::string const sname = nm(which == 0 ? "sort_fore" : "sort_back");
        c.st.add(std::string("probe.") + (which == 0 ? "sort_fore" : "sort_back") + (x.num() < x.mem() ? "_spare_slot_path" : "_exactly_full_path"));
        c.site(sname.c_str());
        if (is_buf) { if (which == 0) a_buf_sort_fore(x.b, elem_cmp); else a_buf_sort_back(x.b, elem_cmp); }
        else { if (which == 0) a_vec_sort_fore(x.v, elem_cmp); else a_vec_sort_back(x.v, elem_cmp); }
        return adopt_sorted(x, want, sname.c_str());
    }

    // the index and element iteration macros of the headers must enumerate exactly the model sequence
    template <size_t Z> struct El { unsigned char b[Z]; };
    template <size_t Z> bool iterate_typed(VecBox &x)
    {
        typedef El<Z> T;
        std::vector<std::string> fw, bw, fw2, bw2;
        size_t const lim = x.M.size() + 2;
        if (is_buf)
        {
            a_buf *ctx = x.b;
            { a_buf_foreach(T, *, it, ctx) { fw.push_back(std::string((char const *)it, Z)); if (fw.size() > lim) break; } }
            { a_buf_foreach_reverse(T, *, it, ctx) { bw.push_back(std::string((char const *)it, Z)); if (bw.size() > lim) break; } }
            { T *it, *at; A_BUF_FOREACH(T *, it, at, ctx) { fw2.push_back(std::string((char const *)it, Z)); if (fw2.size() > lim) break; } }
            { T *it, *at; A_BUF_FOREACH_REVERSE(T *, it, at, ctx) { bw2.push_back(std::string((char const *)it, Z)); if (bw2.size() > lim) break; } }
        }
        else
        {
            a_vec *ctx = x.v;
            { a_vec_foreach(T, *, it, ctx) { fw.push_back(std::string((char const *)it, Z)); if (fw.size() > lim) break; } }
            { a_vec_foreach_reverse(T, *, it, ctx) { bw.push_back(std::string((char const *)it, Z)); if (bw.size() > lim) break; } }
            { T *it, *at; A_VEC_FOREACH(T *, it, at, ctx) { fw2.push_back(std::string((char const *)it, Z)); if (fw2.size() > lim) break; } }
            { T *it, *at; A_VEC_FOREACH_REVERSE(T *, it, at, ctx) { bw2.push_back(std::string((char const *)it, Z)); if (bw2.size() > lim) break; } }
        }
        std::vector<std::string> rev(x.M.rbegin(), x.M.rend());
        if (fw != x.M || fw2 != x.M || bw != rev || bw2 != rev) return c.fail("iteration-wrong", nm("foreach").c_str(), "an element iteration macro does not yield the model sequence (or its reverse)");
        return true;
    }
    bool iterate_macros(VecBox &x)
    {
        c.site(nm("forenum").c_str());
        std::vector<size_t> a, b, d, e;
        size_t const lim = x.M.size() + 2;
        if (is_buf)
        {
            a_buf *ctx = x.b; a_size i;
            { a_buf_forenum(k, ctx) { a.push_back(k); if (a.size() > lim) break; } }
            { a_buf_forenum_reverse(k, ctx) { b.push_back(k); if (b.size() > lim) break; } }
            { A_BUF_FORENUM(a_size, i, ctx) { d.push_back(i); if (d.size() > lim) break; } }
            { A_BUF_FORENUM_REVERSE(a_size, i, ctx) { e.push_back(i); if (e.size() > lim) break; } }
        }
        else
        {
            a_vec *ctx = x.v; a_size i;
            { a_vec_forenum(k, ctx) { a.push_back(k); if (a.size() > lim) break; } }
            { a_vec_forenum_reverse(k, ctx) { b.push_back(k); if (b.size() > lim) break; } }
            { A_VEC_FORENUM(a_size, i, ctx) { d.push_back(i); if (d.size() > lim) break; } }
            { A_VEC_FORENUM_REVERSE(a_size, i, ctx) { e.push_back(i); if (e.size() > lim) break; } }
        }
        bool okk = a.size() == x.M.size() && b.size() == x.M.size() && d == a && e == b;
        for (size_t k = 0; okk && k < a.size(); ++k) okk = a[k] == k && b[k] == a.size() - 1 - k;
        if (!okk) return c.fail("iteration-wrong", nm("forenum").c_str(), "an index iteration macro does not enumerate 0..n-1 (or its reverse)");
        c.st.add("probe.iteration_macros");
        switch (x.z)
        {
        case 1: return iterate_typed<1>(x); case 2: return iterate_typed<2>(x); case 3: return iterate_typed<3>(x); case 4: return iterate_typed<4>(x);
        case 7: return iterate_typed<7>(x); case 8: return iterate_typed<8>(x); case 16: return iterate_typed<16>(x); case 24: return iterate_typed<24>(x);
        case 40: return iterate_typed<40>(x); case 64: return iterate_typed<64>(x); case 100: return iterate_typed<100>(x);
        case 256: return iterate_typed<256>(x); case 1000: return iterate_typed<1000>(x); default: return true;
        }
    }

    // ---------------------------------------------------------------- interpreter
    void exec(Plan const &p)
    {
        SA.reset();
        SA.stats = &c.st;
        SA.always_move = p.knob("alloc_move", 0) != 0;
        SA.junk_fill = p.knob("alloc_junk", 1) != 0;
        SA.reuse_lifo = p.knob("alloc_reuse", 0) != 0;
        SA.junk_seed = (unsigned char)p.knob("junk_seed", 0x5b);
        SA.passthrough = p.knob("alloc_default", 0) != 0;
        if (SA.passthrough) c.st.add("probe.default_allocator_a_alloc_");
        SA.classify = [this](void *addr, size_t) -> char const * {
            char const *s = g_shared->site;
            if (strstr(s, "_new")) return is_buf ? "buf_header" : "vec_header";
            if (is_buf) return "buf_resize";
            return addr ? "vec_growth" : "vec_first_allocation";
        };
        install_simalloc();
        run.setup_bernoulli(bern_permille, bern_seed);
        keyspace = (uint32_t)std::max<int64_t>(1, p.knob("keyspace", 16));
        g_cmp_style = (int)(p.knob("cmpstyle", 0) % 3);
        maxlen = (size_t)std::max<int64_t>(1, p.knob("maxlen", 48));
        size_t const z0 = ELEM_SIZES[(size_t)p.knob("zsel", 4) % N_ELEM_SIZES_ALL];
        size_t const cap0 = (size_t)p.knob("cap", 8);
        bool const heap0 = p.knob("heap", 1) != 0;
        if (!create(box[0], heap0, z0, cap0) || !create(box[1], !heap0, z0, cap0 / 2 + 1)) return;
        for (size_t i = 0; i < p.ops.size() && c.ok(); ++i)
        {
            Op const &o = p.ops[i];
            run.op_begin(o, (int)i);
            c.st.add(std::string("op.") + (is_buf ? "buf." : "vec.") + VEC_OP_NAMES[o.kind]);
            c.logf("op %zu %s%s c=%d a=%lld,%lld,%lld,%lld f=%d:%lld  [len0=%zu len1=%zu]\n", i, P, VEC_OP_NAMES[o.kind], o.client, (long long)o.a[0], (long long)o.a[1], (long long)o.a[2], (long long)o.a[3], o.fk, (long long)o.fa, box[0].M.size(), box[1].M.size());
            step(o);
            run.op_end();
            ++c.steps;
            c.obs((uint64_t)o.kind);
            observe(box[0]); observe(box[1]);
        }
        SA.clear_fault(); run.persistent_active = false;
        // end of history: destroy, then the ledger must be empty
        if (c.ok())
        {
            c.opi = (int)p.ops.size();
            bool wd = p.knob("dtor_at_end", 0) != 0;
            if (destroy(box[0], wd) && destroy(box[1], wd))
            {
                uint64_t lid; size_t bytes; size_t n = SA.leaks(lid, bytes);
                if (n) c.fail("leak", is_buf ? "a_buf_die" : "a_vec_die", "%zu block(s), %zu bytes still allocated after the containers were destroyed (first: block #%llu)", n, bytes, (unsigned long long)lid);
            }
        }
        SA.stats = nullptr;
    }

    void step(Op const &o)
    {
        VecBox &x = box[o.client & 1];
        size_t const len = x.M.size();
        g_cb_z = x.z;
        bool const roomy = len < maxlen;
        mac = (((uint64_t)o.a[0] * 3 + (uint64_t)o.a[1] * 5 + (uint64_t)o.a[2] * 7 + (uint64_t)o.a[3]) >> 3 & 3) == 0;
        switch (o.kind)
        {
        case V_PUSH_BACK: if (roomy) do_insert(x, 0, 0, o.a[0]); break;
        case V_PUSH_FORE: if (roomy) do_insert(x, 1, 0, o.a[0]); break;
        case V_INSERT: if (roomy) do_insert(x, 2, pick_index(o.a[0], o.a[1], len), o.a[2]); break;
        case V_PULL_BACK: do_remove(x, 0, 0); break;
        case V_PULL_FORE: do_remove(x, 1, 0); break;
        case V_REMOVE: do_remove(x, 2, pick_index(o.a[0], o.a[1], len)); break;
        case V_STORE:
        {
            size_t const idx = pick_index(o.a[0], o.a[1], len);
            size_t const n = (size_t)(((uint64_t)o.a[2]) % 9);
            if (len + n > maxlen + 8) break;
            bool const with_copy = (o.a[3] & 1) != 0;
            std::vector<std::string> src;
            unsigned char *arr = (unsigned char *)SA.halloc(n * x.z ? n * x.z : 1);
            for (size_t k = 0; k < n; ++k) { src.push_back(fresh(x, o.a[3] / 2 + (int64_t)k)); memcpy(arr + k * x.z, src[k].data(), x.z); }
            std::string const name = nm("store");
            int ret = 0;
            bool const fits = !is_buf || len + n <= x.c;
            int rc = run.api(name.c_str(), [&] { ret = is_buf ? a_buf_store(x.b, idx, arr, n, with_copy ? elem_copy : nullptr) : a_vec_store(x.v, idx, arr, n, with_copy ? elem_copy : nullptr); return ret == 0; }, [&] { return check(x, name.c_str()); });
            // the source array must be untouched
            bool src_ok = true;
            for (size_t k = 0; k < n; ++k) if (memcmp(arr + k * x.z, src[k].data(), x.z) != 0) src_ok = false;
            SA.hfree(arr);
            if (rc == SeqRun::API_VIOLATION || rc == SeqRun::API_FAULTED) break;
            if (!src_ok) { c.fail("source-array-modified", name.c_str(), "store changed the caller's source array"); break; }
            if (!fits)
            {
                c.st.add("probe.buf_refused_store");
                if (rc == SeqRun::API_OK) { c.fail("full-buffer-accepted-element", name.c_str(), "store of %zu elements into %zu/%zu reported success", n, len, x.c); break; }
                check(x, name.c_str());
                break;
            }
            if (rc != SeqRun::API_OK) { c.fail("unexpected-failure", name.c_str(), "store returned %d although the elements fit", ret); break; }
            size_t const pos = std::min(idx, len);
            x.M.insert(x.M.begin() + (long)pos, src.begin(), src.end());
            check(x, name.c_str());
            break;
        }
        case V_ERASE:
        {
            size_t const idx = pick_index(o.a[0], o.a[1], len);
            uint64_t const av = (uint64_t)(o.a[3] < 0 ? -o.a[3] : o.a[3]);
            bool const with_dtor = ((av >> 8) & 1) != 0;
            size_t cnt;
            switch (((o.a[2] % 8) + 8) % 8)
            {
            case 0: cnt = (size_t)((av & 0xff) % (len + 2)); break;
            case 1: cnt = idx <= len ? len - idx : 0; break;
            case 2: cnt = idx <= len ? len - idx + 1 : 1; break;
            case 3: cnt = SIZE_MAX; break;
            case 4: cnt = SIZE_MAX - idx; break;
            case 5: cnt = (size_t)1 << 63; break;
            case 6: cnt = 0; break;
            default: cnt = 1; break;
            }
            std::string const name = nm("erase");
            g_dtor_seen.clear(); g_dtor_outside = false;
            c.site(name.c_str());
            int ret = is_buf ? a_buf_erase(x.b, idx, cnt, with_dtor ? elem_dtor : nullptr) : a_vec_erase(x.v, idx, cnt, with_dtor ? elem_dtor : nullptr);
            // model, in unbounded arithmetic
            std::vector<std::string> removed;
            int want;
            bool const to_end = cnt >= len || idx >= len || idx + cnt >= len; // idx+cnt cannot wrap once cnt < len and idx < len
            if (idx < len && !to_end) { removed.assign(x.M.begin() + (long)idx, x.M.begin() + (long)(idx + cnt)); x.M.erase(x.M.begin() + (long)idx, x.M.begin() + (long)(idx + cnt)); want = 0; }
            else if (idx < len) { removed.assign(x.M.begin() + (long)idx, x.M.end()); x.M.resize(idx); want = 0; }
            else want = 1;
            if (cnt == SIZE_MAX || cnt == SIZE_MAX - idx || cnt == ((size_t)1 << 63)) c.st.add("probe.erase_huge_count");
            if (want == 0 && ret != 0) { c.fail("unexpected-failure", name.c_str(), "erase(%zu, %zu) on %zu elements returned %d", idx, cnt, len, ret); break; }
            if (want != 0) c.st.add("probe.erase_index_beyond_end"); // nothing may change; the return code is not part of the property
            if (with_dtor && !dtor_subset(removed, name.c_str())) break;
            check(x, name.c_str());
            break;
        }
        case V_SETN:
        {
            uint64_t const v = (uint64_t)(o.a[1] < 0 ? -o.a[1] : o.a[1]);
            size_t n;
            switch (((o.a[0] % 4) + 4) % 4)
            {
            case 0: n = (size_t)(v % (len + 1)); break;
            case 1: n = len + (size_t)(v % 5); break;
            case 2: n = 0; break;
            default: n = (size_t)(v % (maxlen + 16)); break;
            }
            bool const with_dtor = (o.a[2] & 1) != 0;
            std::string const name = nm("setn");
            g_dtor_seen.clear(); g_dtor_outside = false;
            int ret = 0;
            int rc = run.api(name.c_str(), [&] {
                if (is_buf) { a_buf_setn(x.b, n, with_dtor ? elem_dtor : nullptr); return true; }
                ret = a_vec_setn(x.v, n, with_dtor ? elem_dtor : nullptr); return ret == 0; }, [&] { return check(x, name.c_str()); });
            if (rc == SeqRun::API_VIOLATION || rc == SeqRun::API_FAULTED) break;
            if (rc != SeqRun::API_OK) { c.fail("unexpected-failure", name.c_str(), "setn(%zu) returned %d", n, ret); break; }
            size_t target = n;
            if (is_buf && target > x.c) { target = x.c; c.st.add("probe.buf_setn_clamped"); }
            std::vector<std::string> removed;
            if (target < len) { removed.assign(x.M.begin() + (long)target, x.M.end()); x.M.resize(target); }
            if (with_dtor && !dtor_subset(removed, name.c_str())) break;
            if (x.num() != target) { c.fail("length-mismatch", name.c_str(), "count %zu after setn(%zu), expected %zu", x.num(), n, target); break; }
            if (x.num() > x.mem()) { c.fail("count-exceeds-capacity", name.c_str(), "count %zu > capacity %zu", x.num(), x.mem()); break; }
            // newly exposed elements are indeterminate: the caller initialises them at once
            for (size_t k = len; k < target; ++k)
            {
                void *slot = is_buf ? a_buf_at(x.b, k) : a_vec_at(x.v, k);
                if (!slot || !SA.owns(slot, x.z)) { c.fail("returned-pointer-outside-storage", name.c_str(), "slot %zu exposed by setn is not inside owned storage", k); return; }
                std::string e = fresh(x, (int64_t)k);
                memcpy(slot, e.data(), x.z);
                x.M.push_back(e);
            }
            check(x, name.c_str());
            break;
        }
        case V_SETM:
        {
            if (SA.passthrough && !is_buf && (o.a[1] % 5) == 0 && SA.fmode == SimAlloc::F_NONE)
            { // an absurd request that the REAL default allocator refuses: failure must be reported and nothing may change
                size_t const huge = ((size_t)1 << 57) / x.z;
                uint64_t const rf0 = SA.real_failures;
                c.site("a_vec_setm");
                int const ret = (o.a[1] % 10) == 0 ? a_vec_setn(x.v, huge, nullptr) : a_vec_setm(x.v, huge);
                if (SA.real_failures == rf0) break; // the host granted it (not expected); nothing to assert
                c.st.add("probe.real_allocator_refusal_vec");
                if (ret == 0) { c.fail("allocation-failure-not-reported", "a_vec_setm", "the default allocator refused %zu elements but the call reported success", huge); break; }
                check(x, "a_vec_setm");
                break;
            }
            uint64_t const v = (uint64_t)(o.a[0] < 0 ? -o.a[0] : o.a[0]);
            size_t m = (size_t)(v % (maxlen + 24));
            std::string const name = nm("setm");
            if (is_buf)
            {
                if (m < len) m = len; // shrinking below the live content is the caller discarding data (DESIGN.md 7)
                a_buf *nb = nullptr;
                int rc = run.api(name.c_str(), [&] { nb = a_buf_setm(x.b, m); return nb != nullptr; }, [&] { return check(x, name.c_str()); });
                if (rc == SeqRun::API_VIOLATION || rc == SeqRun::API_FAULTED) break;
                if (rc != SeqRun::API_OK) { c.fail("unexpected-failure", name.c_str(), "setm(%zu) returned NULL", m); break; }
                x.b = nb; x.c = m; x.heap = true; // the header now lives in a library-allocated block either way
            }
            else
            {
                int ret = 0;
                int rc = run.api(name.c_str(), [&] { ret = a_vec_setm(x.v, m); return ret == 0; }, [&] { return check(x, name.c_str()); });
                if (rc == SeqRun::API_VIOLATION || rc == SeqRun::API_FAULTED) break;
                if (rc != SeqRun::API_OK) { c.fail("unexpected-failure", name.c_str(), "setm(%zu) returned %d", m, ret); break; }
                if (x.mem() < m) { c.fail("capacity-not-reserved", name.c_str(), "capacity %zu after setm(%zu)", x.mem(), m); break; }
            }
            check(x, name.c_str());
            break;
        }
        case V_SETZ:
        {
            size_t const zreq = ELEM_SIZES[(size_t)(((o.a[0] % 37) + 37) % 37 % N_ELEM_SIZES)];
            bool const with_dtor = (o.a[1] & 1) != 0;
            std::string const name = nm("setz");
            g_dtor_seen.clear(); g_dtor_outside = false;
            std::vector<std::string> removed = x.M;
            c.site(name.c_str());
            if (is_buf) a_buf_setz(x.b, zreq, with_dtor ? elem_dtor : nullptr); else a_vec_setz(x.v, zreq, with_dtor ? elem_dtor : nullptr);
            if (with_dtor && !dtor_subset(removed, name.c_str())) break;
            x.M.clear(); x.z = norm_z(zreq); g_cb_z = x.z;
            if (zreq == 0) c.st.add("probe.zero_element_size");
            if (is_buf) x.c = a_buf_mem(x.b); // capacity in elements after a size change is adopted, then checked against the block
            check(x, name.c_str());
            break;
        }
        case V_SORT: do_sort(x); break;
        case V_PUSH_FORE_SORT: if (roomy) do_sorted_insert(x, 0, o.a[0]); break;
        case V_PUSH_BACK_SORT: if (roomy) do_sorted_insert(x, 1, o.a[0]); break;
        case V_PUSH_SORT: if (roomy) do_sorted_insert(x, 2, o.a[0]); break;
        case V_SEARCH:
        {
            if (!ensure_sorted(x)) break;
            std::string key = make_elem(x.z, (uint32_t)((uint64_t)(o.a[0] < 0 ? -o.a[0] : o.a[0]) % (keyspace + 2)), 0);
            std::string const name = nm("search");
            c.site(name.c_str());
            void *p = mac ? (is_buf ? (void *)A_BUF_SEARCH(unsigned char, x.b, key.data(), elem_cmp) : (void *)A_VEC_SEARCH(unsigned char, x.v, key.data(), elem_cmp))
                          : (is_buf ? a_buf_search(x.b, key.data(), elem_cmp) : a_vec_search(x.v, key.data(), elem_cmp));
            bool present = false;
            for (auto const &e : x.M) if (elem_key(e.data(), x.z) == elem_key(key.data(), x.z)) present = true;
            c.st.add(present ? "probe.search_hit" : "probe.search_miss");
            if (present && !p) { c.fail("search-missed-present-key", name.c_str(), "key %u is present but search returned NULL", elem_key(key.data(), x.z)); break; }
            if (!present && p) { c.fail("search-found-absent-key", name.c_str(), "key %u is absent but search returned an element", elem_key(key.data(), x.z)); break; }
            if (p)
            {
                if (!SA.owns(p, x.z)) { c.fail("returned-pointer-outside-storage", name.c_str(), "search result outside owned storage"); break; }
                if (elem_key(p, x.z) != elem_key(key.data(), x.z)) { c.fail("search-wrong-element", name.c_str(), "search returned an element with a different key"); break; }
            }
            c.obs(p != nullptr);
            break;
        }
        case V_ACCESS:
        {
            int const how = (int)(((o.a[0] % 4) + 4) % 4);
            size_t const cap = x.mem();
            if (how == 0)
            {
                size_t idx = pick_index(o.a[1], o.a[2], len);
                c.site(nm("at").c_str());
                void *p = is_buf ? a_buf_at(x.b, idx) : a_vec_at(x.v, idx);
                if (idx >= cap) { if (p) { c.fail("out-of-range-access-returned-pointer", nm("at").c_str(), "index %zu >= capacity %zu returned a pointer", idx, cap); } c.st.add("probe.access_out_of_range"); break; }
                if (!p || !SA.owns(p, x.z)) { c.fail("returned-pointer-outside-storage", nm("at").c_str(), "index %zu < capacity %zu: pointer missing or outside owned storage", idx, cap); break; }
                if (idx < len && memcmp(p, x.M[idx].data(), x.z) != 0) c.fail("access-wrong-element", nm("at").c_str(), "element %zu differs from the model", idx);
                void *q = is_buf ? a_buf_at_(x.b, idx) : a_vec_at_(x.v, idx); // unchecked form, valid for idx < capacity
                if (c.ok() && q != p) c.fail("access-wrong-element", nm("at_").c_str(), "unchecked and checked accessors disagree for index %zu", idx);
                void *m1 = is_buf ? (void *)A_BUF_AT(unsigned char, x.b, idx) : (void *)A_VEC_AT(unsigned char, x.v, idx);
                void *m2 = is_buf ? (void *)A_BUF_AT_(unsigned char, x.b, idx) : (void *)A_VEC_AT_(unsigned char, x.v, idx);
                void *m3 = is_buf ? (void *)A_BUF_PTR(unsigned char, x.b) : (void *)A_VEC_PTR(unsigned char, x.v);
                if (c.ok() && (m1 != p || m2 != p || m3 != (void *)x.base())) c.fail("access-wrong-element", nm("at").c_str(), "typed macro accessors disagree with the functions for index %zu", idx);
            }
            else if (how == 1)
            {
                size_t const mag0 = pick_index(o.a[1], o.a[2], len);
                int64_t const mag = mag0 > (size_t)INT64_MAX ? INT64_MAX : (int64_t)mag0;
                int64_t const i = (o.a[3] & 1) ? -mag : mag; // half negative, half positive
                c.site(nm("of").c_str());
                void *p = is_buf ? a_buf_of(x.b, (a_diff)i) : a_vec_of(x.v, (a_diff)i);
                bool valid; size_t pos = 0;
                if (i >= 0) { valid = (uint64_t)i < cap; pos = (size_t)i; }
                else { valid = (uint64_t)(-i) <= len; pos = valid ? len - (size_t)(-i) : 0; }
                if (!valid) { c.st.add("probe.access_out_of_range"); if (p) c.fail("out-of-range-access-returned-pointer", nm("of").c_str(), "index %lld with %zu elements and capacity %zu returned a pointer", (long long)i, len, cap); break; }
                if (!p || !SA.owns(p, x.z)) { c.fail("returned-pointer-outside-storage", nm("of").c_str(), "index %lld: pointer missing or outside owned storage", (long long)i); break; }
                if (pos < len && memcmp(p, x.M[pos].data(), x.z) != 0) c.fail("access-wrong-element", nm("of").c_str(), "index %lld differs from model element %zu", (long long)i, pos);
                if (i < 0) c.st.add("probe.access_negative_index");
            }
            else if (how == 2)
            {
                c.site(nm("top").c_str());
                void *p = is_buf ? a_buf_top(x.b) : a_vec_top(x.v);
                if (!len) { if (p) c.fail("out-of-range-access-returned-pointer", nm("top").c_str(), "top of an empty sequence is not NULL"); break; }
                if (!p || !SA.owns(p, x.z) || memcmp(p, x.M.back().data(), x.z) != 0) c.fail("access-wrong-element", nm("top").c_str(), "top is not the last element");
                void *q = is_buf ? a_buf_top_(x.b) : a_vec_top_(x.v);
                if (c.ok() && q != p) c.fail("access-wrong-element", nm("top_").c_str(), "unchecked and checked top disagree");
                if (c.ok() && !is_buf && a_vec_end_(x.v) != a_vec_end(x.v)) c.fail("access-wrong-element", "a_vec_end_", "unchecked and checked end disagree");
                void *t1 = is_buf ? (void *)A_BUF_TOP(unsigned char, x.b) : (void *)A_VEC_TOP(unsigned char, x.v);
                void *t2 = is_buf ? (void *)A_BUF_TOP_(unsigned char, x.b) : (void *)A_VEC_TOP_(unsigned char, x.v);
                void *t3 = is_buf ? (void *)A_BUF_END(unsigned char, x.b) : (void *)A_VEC_END(unsigned char, x.v);
                if (c.ok() && (t1 != p || t2 != p || (unsigned char *)t3 != (unsigned char *)p + x.z)) c.fail("access-wrong-element", nm("top").c_str(), "typed macro top/end disagree with the functions");
            }
            else
            {
                c.site(nm("end").c_str());
                void *p = is_buf ? a_buf_end(x.b) : a_vec_end(x.v);
                if (len) { void *t = is_buf ? a_buf_top(x.b) : a_vec_top(x.v); if (!p || (unsigned char *)p != (unsigned char *)t + x.z) c.fail("access-wrong-element", nm("end").c_str(), "end is not one element past top"); }
                if (c.ok()) iterate_macros(x);
            }
            break;
        }
        case V_SWAP:
        {
            if (is_buf) break;
            c.site("a_vec_swap");
            if (o.a[3] % 5 == 0)
            { // both arguments name the same object: an exchange with itself changes nothing
                int const w = (int)(o.a[2] & 1);
                a_vec_swap(box[w].v, box[w].v);
                c.st.add("probe.swap_with_itself");
                check_all("a_vec_swap");
                break;
            }
            a_vec_swap(box[0].v, box[1].v);
            std::swap(box[0].M, box[1].M); std::swap(box[0].z, box[1].z);
            check_all("a_vec_swap");
            break;
        }
        case V_FILL_TO_CAP:
        {
            if (x.mem() == 0 && !(is_buf)) { if (!do_insert(x, 0, 0, o.a[0])) break; }
            size_t guard = 0;
            while (c.ok() && x.num() < x.mem() && x.M.size() < maxlen + 64 && guard++ < 4096)
            {
                size_t before = x.M.size();
                if (!do_insert(x, 0, 0, o.a[0] + (int64_t)guard)) break;
                if (x.M.size() == before) break; // faulted in persistent mode
            }
            if (c.ok() && x.num() == x.mem()) c.st.add("probe.exactly_full_state");
            break;
        }
        case V_LEAVE_ONE_SPARE:
        {
            if (x.mem() == 0) { if (!do_insert(x, 0, 0, o.a[0])) break; }
            size_t guard = 0;
            while (c.ok() && x.mem() && x.num() + 1 < x.mem() && x.M.size() < maxlen + 64 && guard++ < 4096)
            {
                size_t before = x.M.size();
                if (!do_insert(x, 0, 0, o.a[0] + (int64_t)guard)) break;
                if (x.M.size() == before) break;
            }
            if (c.ok() && x.mem() && x.num() == x.mem()) do_remove(x, 0, 0);
            if (c.ok() && x.num() + 1 == x.mem()) c.st.add("probe.one_spare_slot_state");
            break;
        }
        case V_RECREATE:
        {
            if (!destroy(x, (o.a[2] & 1) != 0)) break;
            size_t zreq = ELEM_SIZES[(size_t)(((o.a[1] % 37) + 37) % 37 % N_ELEM_SIZES)];
            if (!is_buf && box[(o.client & 1) ^ 1].exists()) { /* both vectors may have different sizes; fine */ }
            create(x, (o.a[0] & 1) != 0, zreq, (size_t)(((uint64_t)(o.a[3] < 0 ? -o.a[3] : o.a[3])) % 33));
            if (zreq == 0) c.st.add("probe.zero_element_size");
            if (c.ok()) check(x, is_buf ? "a_buf_new" : "a_vec_new");
            break;
        }
        default: break;
        }
    }
};

// ---------------------------------------------------------------- generator
static inline void gen_vec_plan(Rng &r, Plan &p, bool is_buf, bool for_faults, int tier)
{
    (void)tier;
    p.set("target", is_buf ? 1 : 0);
    p.set("alloc_move", r.chance(1, 2)); p.set("alloc_junk", r.chance(3, 4)); p.set("alloc_reuse", r.chance(1, 4));
    p.set("junk_seed", (int64_t)r.below(256));
    p.set("alloc_default", r.chance(1, 6));
    static const int64_t KS[] = {1, 2, 4, 16, 64, 1000};
    p.set("keyspace", r.pick(KS));
    static const int64_t ML[] = {4, 8, 16, 48, 120, 16, 48, 700};
    p.set("maxlen", r.pick(ML));
    p.set("zsel", gen_zsel(r));
    p.set("cap", (int64_t)r.below(20));
    p.set("heap", r.chance(1, 2));
    p.set("dtor_at_end", r.chance(1, 2));
    p.set("cmpstyle", (int64_t)r.below(3));
    // swarm: each op kind enabled with probability 1/2, at least one producer and one consumer
    bool en[V__COUNT];
    for (int k = 0; k < V__COUNT; ++k) en[k] = r.chance(1, 2);
    if (!(en[V_PUSH_BACK] || en[V_PUSH_FORE] || en[V_INSERT] || en[V_STORE])) en[r.chance(1, 2) ? V_PUSH_BACK : V_INSERT] = true;
    if (!(en[V_PULL_BACK] || en[V_PULL_FORE] || en[V_REMOVE] || en[V_ERASE])) en[r.chance(1, 2) ? V_REMOVE : V_ERASE] = true;
    if (is_buf) en[V_SWAP] = false;
    std::vector<int> kinds;
    for (int k = 0; k < V__COUNT; ++k) if (en[k]) { kinds.push_back(k); if (k <= V_ERASE) kinds.push_back(k); }
    int64_t const nops = for_faults ? r.range(3, 40) : r.geolen(6, 300);
    bool const two = r.chance(1, 2);
    for (int64_t i = 0; i < nops; ++i)
    {
        Op o; o.kind = kinds[r.below(kinds.size())];
        o.client = two ? (int)r.below(2) : 0;
        o.a[0] = (int64_t)r.below(1000); o.a[1] = (int64_t)r.below(1000); o.a[2] = (int64_t)r.below(1000); o.a[3] = (int64_t)r.below(1000);
        if (o.kind == V_INSERT || o.kind == V_REMOVE || o.kind == V_STORE || o.kind == V_ERASE) o.a[0] = gen_index_sel(r);
        if (o.kind == V_ACCESS) o.a[1] = gen_index_sel(r);
        if (o.kind == V_ERASE) o.a[2] = r.chance(1, 2) ? 0 : (int64_t)r.below(8);
        p.ops.push_back(o);
    }
}

} // namespace sim
