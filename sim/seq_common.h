// Common pieces of the `seq` engine (C04-C07): fault protocol around one API call, elements, callbacks.
#pragma once
#include "core/core.h"
#include "core/simalloc.h"
#include <functional>
#include <climits>

namespace sim {

// fault kinds attached to ops (Op::fk)
enum { FK_NONE = 0, FK_NTH = 1, FK_FROM = 2, FK_BERN = 3 };

static int g_heavy_op = -1; // index of the op with the long preparation phase
static bool g_heavy_plan = false; // set by an execution that contains a very long preparation phase: the fault enumeration keeps its budget small
static std::vector<uint32_t> g_req_per_op; // filled by every execution: allocation requests issued inside each op

struct SeqRun
{
    Ctx &c;
    bool faults_enabled = false;
    bool persistent_active = false;
    int64_t persist_left = 0;
    bool retried_in_op = false;
    explicit SeqRun(Ctx &c_) : c(c_) {}

    void op_begin(Op const &o, int opi)
    {
        c.opi = opi;
        SA.op_begin(opi);
        retried_in_op = false;
        if (persistent_active)
        {
            if (persist_left-- <= 0) { persistent_active = false; SA.clear_fault(); c.st.add("probe.persistent_recovered"); }
            else SA.set_fault(SimAlloc::F_FROM, 0);
        }
        if (o.fk == FK_NTH) { SA.set_fault(SimAlloc::F_NTH, o.fa); faults_enabled = true; }
        else if (o.fk == FK_FROM) { SA.set_fault(SimAlloc::F_FROM, o.fa); persistent_active = true; persist_left = o.fb; faults_enabled = true; }
    }
    void setup_bernoulli(int64_t permille, uint64_t seed)
    {
        if (permille <= 0) return;
        SA.fmode = SimAlloc::F_BERNOULLI; SA.bern_num = (uint64_t)permille; SA.bern_den = 1000; SA.frng = Rng(seed ^ 0xfa171e5ull);
        faults_enabled = true;
    }
    void op_end()
    {
        g_req_per_op.push_back((uint32_t)SA.req_in_op);
        if (!persistent_active && SA.fmode != SimAlloc::F_BERNOULLI) SA.clear_fault();
    }

    enum { API_OK = 1, API_REFUSED = 0, API_FAULTED = -1, API_VIOLATION = -2 };
    // One public API call under the fault protocol (DESIGN.md C07 oracle).
    //  call():      performs the call; returns true when the API reported success in its own convention
    //  unchanged(): verifies the container against the (not yet updated) model; false after c.fail()
    int api(char const *name, std::function<bool()> const &call, std::function<bool()> const &unchanged)
    {
        for (int attempt = 0; attempt < 2; ++attempt)
        {
            c.site(name);
            uint64_t const f0 = SA.fired_total;
            bool const ok = call();
            bool const faulted = SA.fired_total > f0;
            if (!SA.err_cls.empty()) { c.fail(SA.err_cls.c_str(), name, "%s", SA.err_detail.c_str()); return API_VIOLATION; }
            if (!faulted)
            {
                if (!ok && attempt == 1) { c.fail("retry-after-fault-failed", name, "the operation failed under an injected allocation failure and failed again when retried with memory available"); return API_VIOLATION; }
                return ok ? API_OK : API_REFUSED;
            }
            c.st.add(std::string("probe.faulted_call.") + name);
            if (ok) { c.fail("allocation-failure-not-reported", name, "an allocation request failed (%s) but the call reported success", SA.last_fired_site.c_str()); return API_VIOLATION; }
            if (!unchanged()) return API_VIOLATION;
            if (persistent_active || SA.fmode == SimAlloc::F_BERNOULLI) return API_FAULTED;
            SA.clear_fault();
            retried_in_op = true;
            c.st.add("probe.retried_after_fault");
        }
        return API_VIOLATION;
    }
};

// ---- elements for vec / buf / que
struct ElemCfg
{
    size_t z = 4;      // element size in bytes (>= 1)
    uint64_t stamp = 0;
};
static inline size_t key_width(size_t z) { return z < 4 ? z : 4; }
static inline std::string make_elem(size_t z, uint32_t key, uint64_t stamp)
{
    std::string e(z, '\0');
    size_t kw = key_width(z);
    for (size_t i = 0; i < kw; ++i) e[i] = (char)((key >> (8 * i)) & 0xff);
    for (size_t i = kw; i < z; ++i) e[i] = (char)(((stamp >> (8 * ((i - kw) % 8))) & 0xff) ^ ((i * 0x3d) & 0xff));
    return e;
}
static inline uint32_t elem_key(void const *p, size_t z)
{
    unsigned char const *b = (unsigned char const *)p; uint32_t k = 0;
    for (size_t i = 0; i < key_width(z); ++i) k |= (uint32_t)b[i] << (8 * i);
    return k;
}
// callbacks need the current element size
static size_t g_cb_z = 4;
static uint64_t g_cmp_calls = 0;
static int g_cmp_style = 0; // 0: -1/0/+1   1: key difference   2: huge magnitudes (the documentation fixes only the sign)
// an address range that can never hold an element (the queue object with its embedded ring sentinel): a comparator
// call on it means a sentinel was taken for a member
static uintptr_t g_cmp_forbid_lo = 0, g_cmp_forbid_len = 0;
static bool g_cmp_forbidden_hit = false;
// the caller's key of a sorted insertion: the documentation puts it on the right ("the key on the right for insertion
// sort"), which is what lets a comparator take a record on the left and a bare key on the right
static void const *g_cmp_key = nullptr;
static bool g_cmp_key_on_left = false;
static int elem_cmp(void const *l, void const *r)
{
    ++g_cmp_calls;
    if (g_cmp_key && l == g_cmp_key && r != g_cmp_key) g_cmp_key_on_left = true;
    if (g_cmp_forbid_len && ((uintptr_t)l - g_cmp_forbid_lo < g_cmp_forbid_len || (uintptr_t)r - g_cmp_forbid_lo < g_cmp_forbid_len)) { g_cmp_forbidden_hit = true; return 0; }
    uint32_t a = elem_key(l, g_cb_z), b = elem_key(r, g_cb_z);
    if (a == b) return 0;
    switch (g_cmp_style)
    {
    default: return (a > b) - (a < b);
    case 1: return (a - b < 0x40000000u || b - a < 0x40000000u) ? (int)(a - b) : ((a > b) ? 1 : -1); // plain difference while it cannot overflow
    case 2: return a > b ? INT_MAX - (int)(a & 1) : INT_MIN + 1 + (int)(b & 1);
    }
}
static std::vector<std::string> g_dtor_seen;
static bool g_dtor_outside = false;
static void elem_dtor(void *p)
{
    if (!SA.owns(p, g_cb_z)) { g_dtor_outside = true; return; }
    g_dtor_seen.push_back(std::string((char const *)p, g_cb_z));
}
static int elem_copy(void *dst, void const *src)
{
    memcpy(dst, src, g_cb_z);
    return 0;
}
static inline bool model_sorted(std::vector<std::string> const &m, size_t z)
{
    for (size_t i = 1; i < m.size(); ++i) if (elem_key(m[i - 1].data(), z) > elem_key(m[i].data(), z)) return false;
    return true;
}
static inline size_t pick_index(int64_t sel, int64_t val, size_t len)
{
    uint64_t v = (uint64_t)(val < 0 ? -val : val);
    switch (((sel % 9) + 9) % 9)
    {
    case 0: return (size_t)(v % (len + 1));
    case 1: return len ? len - 1 : 0;
    case 2: return len;
    case 3: return len + 1;
    case 4: return 2 * len;
    case 5: return SIZE_MAX;
    case 6: return SIZE_MAX - 1;
    case 7: return (size_t)1 << 63;
    default: return (size_t)(v % (2 * len + 2));
    }
}
static inline int64_t gen_index_sel(Rng &r)
{
    // half of the draws in range, the rest spread over the boundary classes
    if (r.chance(1, 2)) return 0;
    return (int64_t)r.below(9);
}
static const size_t ELEM_SIZES[] = {0, 1, 2, 3, 4, 7, 8, 16, 24, 40, 0, 4, 8, 1, 64, 100, 256, 1000, 1500, 4100, 9000}; // the last four are drawn less often (see gen)
enum { N_ELEM_SIZES = 18, N_ELEM_SIZES_ALL = 21 }; // the first 18 are what op arguments select (kept stable for old replay files); the initial size may be any of the 21
static inline int64_t gen_zsel(Rng &r) { return r.chance(1, 12) ? 14 + (int64_t)r.below(7) : (int64_t)r.below(14); }
static inline size_t norm_z(size_t z) { return z ? z : 1; }

} // namespace sim
