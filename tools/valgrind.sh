#!/bin/sh
# Memcheck pass over the plain -O2 build (DESIGN.md 3.6): uninitialised reads and invalid accesses that ASan does not see.
#   tools/valgrind.sh <prop> [items]        exit 0 = no memcheck error in any worker
set -u
V=$(cd "$(dirname "$0")/.." && pwd); p=$1; n=${2:-400}
"$V"/check "$p" --plain --runs 10 --evidence /tmp/vgp_$$.json --out /tmp/vgp_$$ >/dev/null 2>&1
eng=$(python3 -c "
m={'C01':'tree','C02':'tree','C03':'tree','C04':'seq','C05':'seq','C06':'seq','C07':'seq','C12':'ctl','C16':'ctl','C17':'stream','C18':'stream'}
print(m['$p'])")
E=$(ls -d "$V"/build/$eng-plain-*/$eng | head -1)
L=$(mktemp -d /tmp/vglog.XXXXXX)
valgrind -q --error-exitcode=78 --trace-children=yes --log-file=$L/vg.%p.log "$E" batch --prop "$p" --runs "$n" --workers 8 --det 0 --item-timeout 900 --out /tmp/vgp_$$ --evidence /tmp/vgp_$$.json --known "$V"/known_findings.txt | tail -1 | cut -c1-160
errs=$(cat $L/vg.*.log 2>/dev/null | grep -c "^==[0-9]*== [A-Z]")
if [ "$errs" -gt 0 ]; then echo "VALGRIND-ERRORS $p: $errs report lines"; cat $L/vg.*.log | head -40; rc=1; else echo "VALGRIND-CLEAN $p ($n items)"; rc=0; fi
rm -rf $L /tmp/vgp_$$ /tmp/vgp_$$.json
exit $rc
