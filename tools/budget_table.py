#!/usr/bin/env python3
"""Print a markdown table of what the last run of every check covered, from evidence/*.json (or another directory).
   tools/budget_table.py [dir]"""
import glob, json, os, sys

V = os.path.dirname(os.path.dirname(os.path.abspath(__file__)))
d = sys.argv[1] if len(sys.argv) > 1 else os.path.join(V, "evidence")
print("| property | tier | histories | executions | simulated steps | distinct states (HLL) | faults injected | wall s | executions / hour | re-executed for determinism | other build configuration |")
print("|---|---|---|---|---|---|---|---|---|---|---|")
for f in sorted(glob.glob(os.path.join(d, "C*.json"))):
    e = json.load(open(f)); c = e["coverage"]
    alt = c.get("alternative_build_configuration")
    det = c.get("determinism", {})
    print("| %s | %s | %d | %d | %d | %d | %d | %.1f | %.2g | %d (%d mismatches) | %s |" % (
        e["property_id"], e["tier"], c.get("batch_items", 0), c["evaluations"], c.get("simulated_steps", 0), c["distinct_nontrivial"],
        sum(c.get("faults_injected", {}).values()), e.get("wall_s", 0), c.get("runs_per_hour", 0),
        det.get("items_reexecuted", 0), det.get("mismatches", 0),
        ("%d histories" % alt["evaluations"]) if alt else "-"))
