#!/bin/sh
# False-alarm regression: behaviour-preserving changes must pass every check that touches their files.
#   tools/run_benign.sh <patch.diff> <prop> [<prop>...]
V=$(cd "$(dirname "$0")/.." && pwd)
res=$("$V"/tools/try_patch.sh "$@" 2>&1)
echo "$res" | grep -E "^(DETECTED|MISSED|ERROR|PATCH|VIOLATION|HARNESS|BUILD)" | cut -c1-260
