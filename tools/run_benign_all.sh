#!/bin/sh
# False-alarm regression over benign/: exit 1 if any check raises an alarm on a behaviour-preserving change.
V=$(cd "$(dirname "$0")/.." && pwd); cd "$V" || exit 2
bad=0; : > benign/SUMMARY.txt
grep -v "^#" benign/CHECKS.txt | while read id props; do
  res=$(tools/try_patch.sh benign/$id/patch.diff $props 2>&1 | grep -E "^(DETECTED|MISSED|ERROR|PATCH)")
  echo "$id: $(echo $res | sed 's/MISSED/pass/g; s/DETECTED/ALARM/g; s/ patch.diff//g')" | tee -a benign/SUMMARY.txt
done
grep -q "ALARM\|ERROR\|PATCH" benign/SUMMARY.txt && exit 1
exit 0
