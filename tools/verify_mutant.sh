#!/bin/sh
# Confirm a candidate change independently, then run our checks against it, then file it under seeded/.
#   tools/verify_mutant.sh <dir with X.diff demo_X.c notes.md> <X> <id> <prop> [more props to run]
# Steps (all in a scratch worktree under /tmp, removed afterwards):
#   1. clean tree: build + 41 tests pass; demo compiled against clean sources exits 0
#   2. patched tree: patch applies, build + 41 tests pass; demo exits non-zero (or crashes)
#   3. our checks on the patched sources (tools/try_patch.sh)
set -u
src=$1; X=$2; id=$3; shift 3
V=$(cd "$(dirname "$0")/.." && pwd)
W=/tmp/vw_$id
git -C /repo worktree remove --force "$W" >/dev/null 2>&1
git -C /repo worktree add -q "$W" HEAD || exit 3
demo=$src/demo_$X.c
srcs=$(grep -h "cc .*demo_$X" "$src/notes.md" | head -1 | tr ' ' '\n' | grep "/src/.*\.c$" | sed "s#/tmp/wt_[A-Z0-9]*#$W#" | tr '\n' ' ')
extra=$(grep -h "cc .*demo_$X" "$src/notes.md" | head -1 | tr ' ' '\n' | grep -E "^-fsanitize|^-g$|^-O|^-D" | tr '\n' ' ')
[ -z "$srcs" ] && { echo "cannot find compile line for demo_$X in notes.md"; srcs="$W/src/a.c"; }
cxx=""; grep -h "cc .*demo_$X" "$src/notes.md" | head -1 | grep -q -- "-x c++" && cxx=1
compile() { # $1 = output
  if [ -n "$cxx" ]; then cc -I"$W/include" $extra -o "$1" -x c++ "$demo" -x c $srcs -x none -lstdc++ -lm; else cc -I"$W/include" $extra -o "$1" "$demo" $srcs -lm; fi; }
build_and_test() { (cd "$W" && cmake -G Ninja -B _build -S . -DBUILD_TESTING=ON >/dev/null 2>&1 && cmake --build _build >/dev/null 2>&1 && ctest --test-dir _build -j8 2>&1 | grep -E "tests passed|tests failed" ); }
echo "== clean: $(build_and_test)"
compile "$W/demo_clean" 2>/dev/null || compile "$W/demo_clean"
"$W/demo_clean" >/dev/null 2>&1; rc_clean=$?
if ! git -C "$W" apply "$src/$X.diff"; then echo "PATCH DOES NOT APPLY"; git -C /repo worktree remove --force "$W"; exit 3; fi
tests=$(build_and_test)
echo "== patched: $tests"
compile "$W/demo_mut" 2>/dev/null
"$W/demo_mut" >/dev/null 2>&1; rc_mut=$?
echo "== demo exit: clean=$rc_clean patched=$rc_mut"
git -C /repo worktree remove --force "$W"
ok=1; [ "$rc_clean" -eq 0 ] || ok=0; [ "$rc_mut" -ne 0 ] || ok=0; echo "$tests" | grep -q "100% tests passed" || ok=0
if [ $ok -ne 1 ]; then echo "NOT CONFIRMED: $id"; exit 4; fi
res=$(TIER=${TIER:-quick} "$V"/tools/try_patch.sh "$src/$X.diff" "$@" 2>&1)
echo "$res"
D=$V/seeded/$id; mkdir -p "$D"
cp "$src/$X.diff" "$D/patch.diff"; cp "$demo" "$D/"; 
awk -v x="$X" 'BEGIN{p=0} /^#+ .*[Cc]hange '"$X"'|^#+ *'"$X"'[ :—-]/{p=1} p{print}' "$src/notes.md" > "$D/notes_from_author.md"
[ -s "$D/notes_from_author.md" ] || cp "$src/notes.md" "$D/notes_from_author.md"
printf '%s\n' "$res" > "$D/check_result.txt"
echo "CONFIRMED and filed: $D"
