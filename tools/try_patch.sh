#!/bin/sh
# Run checks against a scratch copy of /repo with a patch applied (never touches /repo).
#   tools/try_patch.sh <patch.diff> <prop> [<prop> ...]      env: TIER=quick|thorough  RUNS=<n>  SEED=<n>
# Prints one line per property: DETECTED / MISSED, plus the violation lines.
set -u
patch=$(readlink -f "$1"); shift
V=$(cd "$(dirname "$0")/.." && pwd)
S=$(mktemp -d /tmp/mrepo.XXXXXX)
cp -r /repo/include /repo/src "$S"/
if ! (cd "$S" && patch -p1 -s < "$patch"); then echo "PATCH-FAILED $patch"; rm -rf "$S"; exit 3; fi
rc_all=0
for p in "$@"; do
  extra=""; [ -n "${RUNS:-}" ] && extra="--runs $RUNS"
  out=$(VERIF_REPO="$S" VERIF_SEED="${SEED:-1}" "$V"/check "$p" --tier "${TIER:-quick}" $extra --out "$S/out/$p" --evidence "$S/ev_$p.json" 2>&1); rc=$?
  if [ $rc -eq 1 ]; then echo "DETECTED $p $(basename "$patch")"; elif [ $rc -eq 0 ]; then echo "MISSED $p $(basename "$patch")"; rc_all=1; else echo "ERROR($rc) $p $(basename "$patch")"; rc_all=2; fi
  echo "$out" | grep -E "^(VIOLATION|HARNESS|NOTE|BUILD)" | cut -c1-260 | head -${SHOW:-4}
  echo "$out" | tail -1 | cut -c1-200
  if [ -n "${KEEP:-}" ]; then mkdir -p "$KEEP"; cp "$S"/out/"$p"/*.replay "$KEEP"/ 2>/dev/null; fi
done
# remove the scratch copy and the engine builds made for it
tag=$(printf %s "$S" | sha256sum | cut -c1-8)
for d in "$V"/build/*; do [ -f "$d/repo.tag" ] && [ "$(cat "$d/repo.tag")" = "$tag" ] && rm -rf "$d"; done
rm -rf "$S"
exit $rc_all
