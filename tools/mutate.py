#!/usr/bin/env python3
"""Systematic single-token mutation analysis of the files the claimed properties are anchored in.

  tools/mutate.py [--per-file N] [--seed S] [--only <substring>] [--runs-scale F]

For every sampled mutant (one small syntactic change in one file):
  1. the library is rebuilt in a scratch worktree with CMake and the 41 pinned tests are run
     (a mutant that does not compile is discarded; one that fails the tests is "killed-by-tests"),
  2. the checks of the properties anchored in that file are run against the scratch tree (reduced run counts),
  3. the mutant is DETECTED if any check exits 1, SURVIVED otherwise.
Results go to mutation/results.tsv; survivors are the interesting part (equivalent mutant, or a gap).
Nothing is ever written to /repo.
"""
import os, random, re, subprocess, sys, shutil, time

V = os.path.dirname(os.path.dirname(os.path.abspath(__file__)))
W = "/tmp/mutw"
FILES = {
    "src/avl.c": ["C01", "C03"], "src/rbt.c": ["C02", "C03"],
    "include/a/avl.h": ["C01", "C03"], "include/a/rbt.h": ["C02", "C03"],
    "src/vec.c": ["C04", "C07"], "src/buf.c": ["C04", "C07"], "include/a/vec.h": ["C04"], "include/a/buf.h": ["C04"],
    "src/a.c": ["C04", "C07", "C16"],
    "include/a/list.h": ["C05"], "include/a/slist.h": ["C05"], "src/que.c": ["C05", "C07"], "include/a/que.h": ["C05"],
    "src/str.c": ["C06", "C07", "C18"], "include/a/str.h": ["C06"], "src/utf.c": ["C18", "C06"],
    "src/pid.c": ["C12"], "src/pid_fuzzy.c": ["C12"], "src/pid_neuro.c": ["C12"],
    "src/tf.c": ["C16"], "include/a/lpf.h": ["C16"], "include/a/hpf.h": ["C16"], "include/a/tf.h": ["C16"],
    "src/crc.c": ["C17"], "src/hash.c": ["C17"],
    # shared helpers and the headers with inline members / macros
    "src/math.c": ["C16"], "include/a/a.h": ["C04", "C12", "C16", "C17"],
    "include/a/pid.h": ["C12"], "include/a/pid_fuzzy.h": ["C12"], "include/a/pid_neuro.h": ["C12"],
    "include/a/crc.h": ["C17"], "include/a/hash.h": ["C17"], "include/a/utf.h": ["C18", "C06"],
}
# for large shared files: only these line ranges belong to a claimed property (the rest is C11 / C19 territory, not claimed)
RANGES = {
    "include/a/a.h": [(1050, 1125), (1241, 1273), (1320, 1335), (1392, 1408)],
    "src/math.c": [(565, 572)],
}
RUNS = {"C01": 30000, "C02": 30000, "C03": 30000, "C04": 30000, "C05": 40000, "C06": 40000, "C07": 2500, "C12": 40000, "C16": 60000, "C17": 60000, "C18": 80000}

REL = [("<=", "<"), (">=", ">"), ("==", "!="), ("!=", "=="), ("<", "<="), (">", ">=")]


def code_part(line):
    """the part of the line that is code (no preprocessor, no comment text)"""
    s = line.rstrip("\n")
    st = s.lstrip()
    if not st or st.startswith(("#", "*", "/*", "//", "@")):
        return None
    i = s.find("/*")
    if i >= 0:
        s = s[:i]
    i = s.find("//")
    if i >= 0:
        s = s[:i]
    return s if s.strip() else None


def mutants_of_line(code):
    out = []
    # relational operators (not inside -> or << >> or templates; the files are C)
    for m in re.finditer(r"(?<![<>=!\-])(<=|>=|==|!=|<|>)(?![<>=])", code):
        tok = m.group(1)
        if tok in ("<", ">") and (code[max(0, m.start() - 1):m.start()] == "-" or code[m.end():m.end() + 1] in ("<", ">")):
            continue
        for a, b in REL:
            if tok == a:
                out.append(("rel %s->%s" % (a, b), code[:m.start()] + b + code[m.end():]))
    # logical connectives
    for m in re.finditer(r"&&|\|\|", code):
        b = "||" if m.group(0) == "&&" else "&&"
        out.append(("logic %s->%s" % (m.group(0), b), code[:m.start()] + b + code[m.end():]))
    # + / - between operands (not ++ -- -> += -=)
    for m in re.finditer(r"(?<=[\w\)\]] )([+-])(?= [\w\(])", code):
        b = "-" if m.group(1) == "+" else "+"
        out.append(("arith %s->%s" % (m.group(1), b), code[:m.start()] + b + code[m.end():]))
    # small integer literals
    for m in re.finditer(r"(?<![\w.])([0-9]+)(?![\w.])", code):
        v = int(m.group(1))
        if v > 8:
            continue
        for nv in ({0: [1], 1: [0, 2]}.get(v, [v - 1, v + 1])):
            out.append(("const %d->%d" % (v, nv), code[:m.start()] + str(nv) + code[m.end():]))
    # compound assignment, increment / decrement, shifts and bitwise operators (CRC, UTF-8, hashes, packed tree links)
    for a_, b_ in (("+=", "-="), ("-=", "+="), ("|=", "&="), ("&=", "|="), ("^=", "|="), ("<<=", ">>="), (">>=", "<<=")):
        for m in re.finditer(re.escape(a_), code):
            if a_ in ("+=", "-=", "|=", "&=", "^=") and code[max(0, m.start() - 1):m.start()] in ("<", ">"):
                continue
            out.append(("assign %s->%s" % (a_, b_), code[:m.start()] + b_ + code[m.end():]))
    for m in re.finditer(r"\+\+|--", code):
        b_ = "--" if m.group(0) == "++" else "++"
        out.append(("incdec %s->%s" % (m.group(0), b_), code[:m.start()] + b_ + code[m.end():]))
    for m in re.finditer(r"(?<![<>])(<<|>>)(?![<>=])", code):
        b_ = ">>" if m.group(1) == "<<" else "<<"
        out.append(("shift %s->%s" % (m.group(1), b_), code[:m.start()] + b_ + code[m.end():]))
    for m in re.finditer(r"(?<=[\w\)\]] )([&|^])(?= [\w\(~])", code):
        for b_ in {"&": "|", "|": "&", "^": "|"}[m.group(1)]:
            out.append(("bit %s->%s" % (m.group(1), b_), code[:m.start()] + b_ + code[m.end():]))
    for m in re.finditer(r"\b0[xX]([0-9a-fA-F]+)\b", code):
        v = int(m.group(1), 16)
        for nv in (v + 1, v - 1 if v else 1, v >> 1 if v > 1 else 2):
            out.append(("hex %x->%x" % (v, nv), code[:m.start()] + ("0x%X" % nv) + code[m.end():]))
    for a_, b_ in (("a_move", "a_copy"), ("a_copy", "a_move")):
        for m in re.finditer(r"\b%s\b" % a_, code):
            out.append(("swap %s->%s" % (a_, b_), code[:m.start()] + b_ + code[m.end():]))
    # mirrored identifiers
    for a, b in (("left", "right"), ("right", "left"), ("next", "prev"), ("prev", "next"), ("head", "tail"), ("tail", "head"), ("num_", "mem_"), ("mem_", "num_"), ("fore", "back"), ("back", "fore")):
        for m in re.finditer(r"\b%s\b" % a, code):
            out.append(("swap %s->%s" % (a, b), code[:m.start()] + b + code[m.end():]))
    # negated condition
    m = re.match(r"^(\s*(?:else )?if \()(.*)(\)\s*\{?.*)$", code)
    if m and m.group(2).count("(") == m.group(2).count(")"):
        out.append(("negate-if", m.group(1) + "!(" + m.group(2) + ")" + m.group(3)))
    # statement deletion (simple expression statements only)
    st = code.strip()
    if st.endswith(";") and not st.startswith(("return", "break", "continue", "goto", "case", "default", "}", "{", "typedef", "static", "extern", "A_", "a_size ", "a_byte ", "a_real ", "a_u", "int ", "unsigned", "char ", "void ", "struct ", "for ", "while ", "do ", "else")) and ("=" in st or "(" in st) and not re.match(r"^[\w\s\*]+\s[\w\*]+\s*=", st):
        out.append(("delete-stmt", code[:len(code) - len(code.lstrip())] + ";"))
    return out


def sh(cmd, **kw):
    return subprocess.run(cmd, shell=True, stdout=subprocess.PIPE, stderr=subprocess.STDOUT, **kw)


def main():
    per_file = 30
    seed = 1
    only = None
    scale = 1.0
    recheck = False
    a = sys.argv[1:]
    while a:
        if a[0] == "--per-file": per_file = int(a[1]); a = a[2:]
        elif a[0] == "--seed": seed = int(a[1]); a = a[2:]
        elif a[0] == "--only": only = a[1]; a = a[2:]
        elif a[0] == "--runs-scale": scale = float(a[1]); a = a[2:]
        elif a[0] == "--recheck": recheck = True; a = a[1:]
        else: sys.exit("unknown arg " + a[0])
    rnd = random.Random(seed)
    sh("git -C /repo worktree remove --force %s" % W)
    if sh("git -C /repo worktree add -q %s HEAD" % W).returncode != 0:
        sys.exit("cannot create scratch worktree")
    sh("cd %s && cmake -G Ninja -B _build -S . -DBUILD_TESTING=ON" % W)
    if sh("cd %s && cmake --build _build && ctest --test-dir _build -j8" % W).returncode != 0:
        sys.exit("clean tree does not build/test")
    os.makedirs(os.path.join(V, "mutation"), exist_ok=True)
    res_path = os.path.join(V, "mutation", "results.tsv")
    done = set()
    if os.path.exists(res_path):
        for l in open(res_path):
            f = l.rstrip("\n").split("\t")
            if len(f) >= 4:
                done.add((f[0], f[1], f[2], f[3]))
    survivors = {}
    if recheck:  # only the mutants that survived an earlier pass, against the checks as they are now
        for l in open(res_path):
            f = l.rstrip("\n").split("\t")
            if len(f) >= 5 and f[4] == "SURVIVED":
                survivors.setdefault(f[0], []).append((int(f[1]) - 1, f[2], f[3]))
        res_path = os.path.join(V, "mutation", "recheck.tsv")
        if os.path.exists(res_path): os.unlink(res_path)
        done = set()
    out = open(res_path, "a")
    try:
        for rel, props in FILES.items():
            if only and only not in rel:
                continue
            path = os.path.join(W, rel)
            lines = open(path).read().split("\n")
            cand = []
            if recheck:
                for (i, op, newtxt) in survivors.get(rel, []):
                    old = lines[i]
                    cand.append((i, op, old, old[:len(old) - len(old.lstrip())] + newtxt))
                lines_scan = []
            else:
                lines_scan = lines
            lines_all = lines
            lines = lines_scan
            in_comment = False
            for i, line in enumerate(lines):
                if in_comment:
                    if "*/" in line:
                        in_comment = False
                    continue
                if "/*" in line and "*/" not in line[line.find("/*"):]:
                    in_comment = True  # the code before the comment opener is still considered
                code = code_part(line)
                if code is None:
                    continue
                if rel in RANGES and not any(lo <= i + 1 <= hi for lo, hi in RANGES[rel]):
                    continue
                for op, new in mutants_of_line(code):
                    if new != code:
                        cand.append((i, op, line, line.replace(code, new, 1)))
            lines = lines_all
            if not recheck: rnd.shuffle(cand)
            taken = 0
            for (i, op, old, new) in cand:
                if taken >= per_file:
                    break
                key = (rel, str(i + 1), op, new.strip())
                if key in done:
                    taken += 1
                    continue
                ml = list(lines); ml[i] = new
                open(path, "w").write("\n".join(ml))
                t0 = time.time()
                b = sh("cd %s && cmake --build _build 2>&1 | tail -5" % W)
                ok_build = sh("cd %s && cmake --build _build" % W).returncode == 0
                status = detail = ""
                if not ok_build:
                    status = "no-compile"
                else:
                    t = sh("cd %s && ctest --test-dir _build -j8 --timeout 60" % W)
                    if t.returncode != 0:
                        status = "killed-by-tests"
                    else:
                        status = "SURVIVED"
                        for p in props:
                            runs = max(500, int(RUNS[p] * scale))
                            r = subprocess.run([os.path.join(V, "check"), p, "--runs", str(runs), "--max-seconds", "40", "--item-timeout", "10", "--out", "/tmp/mutw_out/" + p, "--evidence", "/tmp/mutw_out/ev_%s.json" % p],
                                               env=dict(os.environ, VERIF_REPO=W, VERIF_FAST="1"), stdout=subprocess.PIPE, stderr=subprocess.STDOUT)
                            o = r.stdout.decode(errors="replace")
                            if r.returncode == 1:
                                status = "DETECTED"
                                vl = [l for l in o.splitlines() if l.startswith("VIOLATION")]
                                detail = p + ": " + (re.sub(r"replay=\S+ ", "", vl[0])[:160] if vl else "")
                                break
                            if r.returncode != 0:
                                status = "CHECK-ERROR"; detail = p + ": " + o.strip().splitlines()[-1][:160]
                                break
                open(path, "w").write("\n".join(lines))
                if status != "no-compile":
                    taken += 1
                out.write("\t".join([rel, str(i + 1), op, new.strip(), status, detail, "%.0fs" % (time.time() - t0)]) + "\n"); out.flush()
                print(rel, i + 1, op, status, detail[:100], flush=True)
            open(path, "w").write("\n".join(lines))
    finally:
        out.close()
        sh("git -C /repo worktree remove --force %s" % W)
        shutil.rmtree("/tmp/mutw_out", ignore_errors=True)
        # engine builds made for the scratch tree
        for d in os.listdir(os.path.join(V, "build")):
            pth = os.path.join(V, "build", d, "repo.path")
            try:
                if open(pth).read() == W:
                    shutil.rmtree(os.path.join(V, "build", d), ignore_errors=True)
            except OSError:
                pass


if __name__ == "__main__":
    main()
