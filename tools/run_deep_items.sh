#!/bin/sh
# Replay the hand-picked heavy thorough-tier items (minutes of CPU, gigabytes of address space) against /repo or against
# a scratch copy given by VERIF_REPO.  The thorough tier draws such items itself (a handful per sweep); this script is
# for trying one deliberately, e.g. against a seeded change:  VERIF_REPO=/tmp/copy tools/run_deep_items.sh C01
V=$(cd "$(dirname "$0")/.." && pwd); cd "$V" || exit 2
rc=0
for f in tools/deep_items/${1:-C}*.plan; do
  p=$(basename "$f" | cut -c1-3)
  out=$(./check "$p" --replay "$f" 2>&1 | grep -E "^REPLAY|deep tree")
  echo "$f: $out"
  echo "$out" | grep -q "no violation" || rc=1
done
exit $rc
