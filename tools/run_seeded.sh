#!/bin/sh
# Sensitivity regression: run every filed seeded change against the check(s) of the property it breaks.
#   tools/run_seeded.sh [ids...]      writes seeded/SUMMARY.txt ; exit 1 if any change is no longer detected
V=$(cd "$(dirname "$0")/.." && pwd); cd "$V" || exit 2
ids="$*"; [ -z "$ids" ] && ids=$(ls seeded | grep -v -E "SUMMARY|SEEDS")
out=seeded/SUMMARY.txt; : > $out.tmp; bad=0
for id in $ids; do
  prop=$(python3 -c "import json;m=json.load(open('seeded/$id/meta.json'));print(m.get('check_with',m['breaks_property']))")
  res=$(tools/try_patch.sh seeded/$id/patch.diff $prop 2>&1)
  first=$(echo "$res" | head -1); viol=$(echo "$res" | grep -m1 "^VIOLATION" | sed 's/.*class=\([^ ]*\) site=\([^ ]*\).*ops=\([0-9]*\).*/\1 at \2, \3 ops/')
  echo "$id $first | $viol" | tee -a $out.tmp
  echo "$first" | grep -q "^DETECTED" || bad=1
done
mv $out.tmp $out
exit $bad
