#!/usr/bin/env python3
"""Summarise mutation/results.tsv (+ recheck.tsv): counts per status and per file, and the list of survivors."""
import collections, os
V = os.path.dirname(os.path.dirname(os.path.abspath(__file__)))
rows = [l.rstrip("\n").split("\t") for l in open(os.path.join(V, "mutation", "results.tsv")) if l.strip()]
re_path = os.path.join(V, "mutation", "recheck.tsv")
re = {}
if os.path.exists(re_path):
    for l in open(re_path):
        f = l.rstrip("\n").split("\t")
        if len(f) >= 5: re[(f[0], f[1], f[2], f[3])] = f[4]
import importlib.util
spec = importlib.util.spec_from_file_location("mutate", os.path.join(V, "tools", "mutate.py")); mu = importlib.util.module_from_spec(spec); spec.loader.exec_module(mu)
final = []
for f in rows:
    st = f[4]
    if f[0] in mu.RANGES and not any(lo <= int(f[1]) <= hi for lo, hi in mu.RANGES[f[0]]): st = "out-of-scope (part of the file that belongs to no claimed property)"
    if st == "SURVIVED" and re.get((f[0], f[1], f[2], f[3])) == "DETECTED": st = "DETECTED-after-strengthening"
    final.append((f[0], f[1], f[2], f[3], st))
tot = collections.Counter(x[4] for x in final)
print("mutants: %d" % len(final))
for k, v in sorted(tot.items()): print("  %-30s %d" % (k, v))
live = tot["DETECTED"] + tot["DETECTED-after-strengthening"] + tot["SURVIVED"]
print("compiling and passing the 41 tests (and the harness build): %d; detected %d; not detected %d" % (live, live - tot["SURVIVED"], tot["SURVIVED"]))
print("\nper file (detected / detected after strengthening / survived / killed by tests / no compile / check build error):")
per = collections.defaultdict(collections.Counter)
for x in final: per[x[0]][x[4]] += 1
for k in sorted(per): c = per[k]; print("  %-26s %3d %3d %3d %3d %3d %3d" % (k, c["DETECTED"], c["DETECTED-after-strengthening"], c["SURVIVED"], c["killed-by-tests"], c["no-compile"], c["CHECK-ERROR"]))
print("\nsurvivors (classified in DESIGN.md 11.8):")
for x in final:
    if x[4] == "SURVIVED": print("  %s:%s  %s  | %s" % (x[0], x[1], x[2], x[3][:110]))
