#!/usr/bin/env python3
"""Regenerates MANIFEST.json from the table below (keeps it schema-valid)."""
import json, os
NA = {
"C08":"pure function of (matrix, right-hand side): no schedule, clock, fault, interruption or stream boundary in the statement; deterministic simulation has nothing to decide (DESIGN.md section 5)",
"C09":"pure function of operands and dimensions; the out-of-bounds clause is memory safety of a pure function, not a fault response (DESIGN.md section 5)",
"C10":"pure function of the argument; the configuration quantifier is a compile-time switch, not a runtime fault or schedule (DESIGN.md section 5)",
"C11":"pure function of the argument and a compile-time switch (DESIGN.md section 5)",
"C13":"pure function of inputs and parameters; its one history-dependent consequence (non-finite gains in controller state) is observed under C12 (DESIGN.md section 5)",
"C14":"gen followed by pos/vel/acc(t) is a pure function of (request, t); the time argument is data, not a clock (DESIGN.md section 5)",
"C15":"pure function of boundary data and t (DESIGN.md section 5)",
"C19":"pure function; the natural decision procedure is exhaustive enumeration, which is not this technique family (DESIGN.md section 5)",
"C20":"static agreement of two sets of declarations; nothing executes, so there is nothing to schedule or fault (DESIGN.md section 5)",
}
CLAIMED = {
 "C01": ("tree","exploration","4 C01","seeded search over multi-client insert/remove/lookup histories on the real AVL code, reference std::map model and full structural invariants after every operation; removed nodes poisoned","deterministic simulation: seeded operation histories vs reference model, invariants after every step, ddmin-minimised replay"),
 "C02": ("tree","exploration","4 C02","same engine on the real red-black tree: colour, black-height, order, parent links and residency checked after every operation","deterministic simulation: seeded operation histories vs reference model, invariants after every step, ddmin-minimised replay"),
 "C03": ("tree","exploration","4 C03","all iterator forms checked against a recursive reference traversal on every tree shape the histories produce; tear-down driven one yield per step with interruption after k yields, yielded nodes poisoned at once, resumed or restarted","deterministic simulation with interruption faults (tear-down stopped after any k steps, nodes freed on hand-out)"),
 "C04": ("seq","exploration","4 C04","seeded histories over the real vector and fixed buffer against an abstract sequence, both capacity states forced, out-of-range and SIZE_MAX indices/counts, on a relocating junk-filling allocator behind a_alloc with exact block sizes under ASan","deterministic simulation: seeded histories over a simulated allocator (relocation, junk fill, reuse), reference model after every step"),
 "C05": ("seq","exploration","4 C05","seeded histories over intrusive lists, singly linked list and queue (one or two containers) against abstract sequences; ring integrity, fixed element addresses and non-recycling of enqueued nodes checked after every operation","deterministic simulation: seeded histories over a simulated pool allocator, reference model after every step"),
 "C06": ("seq","exploration","4 C06","seeded histories over the real dynamic string against an abstract byte string with a terminated flag; payload and formatted lengths targeted at the capacity boundary; formatter output compared with libc","deterministic simulation: seeded histories over a simulated allocator, reference model after every step"),
 "C07": ("seq","fault_enumeration","4 C07","histories are sampled; inside each history every allocation request the library issues is failed once alone (with retry) and once persistently until a recovery point, plus Bernoulli multi-fault runs; failed operation must report failure, leave the container observationally unchanged, succeed on retry; ledger empty at the end","deterministic simulation with allocator fault injection: enumeration of every allocation request of a sampled history as the failing one"),
 "C12": ("ctl","exploration","4 C12","closed-loop discrete-time simulation of the real PID, fuzzy PID and neuron PID with plant, faulty sensor and operator stubs; bit-exact comparison with the documented difference equations in a dyadic regime, limits/finiteness/integrator-clamp invariants in a general regime, zero=restart against lock-step replicas","deterministic simulation: seeded closed-loop histories with sensor faults, retuning, mode switches and restarts vs reference recurrences"),
 "C16": ("ctl","exploration","4 C16","seeded input histories through the real transfer function and RC filters; bit-exact direct-form reference, lock-step replicas for linearity and time-invariance, reset at arbitrary steps, bounded settling once disturbances stop","deterministic simulation: seeded input histories with reset faults and lock-step replicas vs reference recurrences"),
 "C17": ("stream","exploration","4 C17","messages delivered by a simulated transport in arbitrary fragments (including empty ones) to receivers carrying a running CRC/hash; end-of-stream value compared with a bitwise reference and with the reflected receiver","deterministic simulation: seeded fragmentation of a byte stream, running value vs bitwise reference"),
 "C18": ("stream","exploration","4 C18","code-point streams encoded by the real encoder, fragmented, truncated and (separately) corrupted by a simulated transport; decoder fed from a buffer that ends at an inaccessible page","deterministic simulation: seeded truncation/fragmentation/corruption of a byte stream against a guard page"),
}
IMPLEMENTED = [l.strip() for l in open(os.path.join(os.path.dirname(os.path.dirname(os.path.abspath(__file__))),'implemented.txt')) if l.strip()]
ENG = {"seq":"sim/seq.cc","tree":"sim/tree.cc","ctl":"sim/ctl.cc","stream":"sim/stream.cc"}
checks=[]; na=[{"property_id":k,"reason":v} for k,v in NA.items()]
for pid,(eng,level,ref,text,tech) in CLAIMED.items():
    if pid in IMPLEMENTED:
        checks.append({"property_id":pid,"quick_cmd":"./check %s --tier quick"%pid,"thorough_cmd":"./check %s --tier thorough"%pid,
          "evidence_file":"/verif/evidence/%s.json"%pid,"replay_cmd_template":"./check %s --replay {path}"%pid,"engine":eng,
          "level_claimed":{"category":level,"text":text,"design_ref":"DESIGN.md section "+ref},
          "level_note":"trusted base: clang 14 + ASan/UBSan runtime, glibc, the harness and its reference model; a clean batch is sampling evidence, not proof; liba sources are compiled directly from the working tree with the flags in ./check",
          "technique":tech})
    else:
        na.append({"property_id":pid,"reason":"claimed in DESIGN.md; check under construction, not yet registered"})
engs=[{"name":n,"path":p,"serves_properties":[pid for pid,v in CLAIMED.items() if v[0]==n and pid in IMPLEMENTED],"kind_free_text":"deterministic simulator: seeded plan generator, interpreter against real liba code + reference model, fault injection, ddmin shrinker, replay gate"} for n,p in ENG.items() if any(v[0]==n and pid in IMPLEMENTED for pid,v in CLAIMED.items())]
m={"version":1,"setup_cmd":"./check --build-all",
 "hooks":{"guard":"LIBA_VERIF","enable":"no hooks are needed: the public a_alloc function pointer is the only seam (assigned at run time by the simulator); liba sources are compiled unmodified","baseline_off_cmd":"cmake -G Ninja -B /repo/_build -S /repo >/dev/null && cmake --build /repo/_build >/dev/null && ctest --test-dir /repo/_build -j8 --timeout 900","source_commits":[],"add_only":True},
 "engines":engs,"checks":checks,"not_applicable":na,
 "notes":"Deterministic simulation with fault injection (DESIGN.md). VIOLATION / KNOWN-FINDING lines as specified; exit 2 = harness error (non-replayable alarm), never reported as a violation. known_findings.txt lists recorded findings and fix: commits."}
json.dump(m,open(os.path.join(os.path.dirname(os.path.dirname(os.path.abspath(__file__))),'MANIFEST.json'),'w'),indent=1)
print("checks:",[c["property_id"] for c in checks])
