#!/bin/sh
# Reach measurement (DESIGN.md 3.8): build an engine with clang source-based coverage, run a batch single-process,
# and report execution counts for the liba sources.   tools/coverage.sh <prop> [runs]
set -u
V=$(cd "$(dirname "$0")/.." && pwd); p=$1; runs=${2:-3000}
eng=$(python3 - "$p" <<'P'
import sys
m={"C01":"tree","C02":"tree","C03":"tree","C04":"seq","C05":"seq","C06":"seq","C07":"seq","C12":"ctl","C16":"ctl","C17":"stream","C18":"stream"}
print(m[sys.argv[1]])
P
)
D=$(mktemp -d /tmp/cov.XXXXXX)
CF="-O0 -g -fprofile-instr-generate -fcoverage-mapping"
srcs=$(python3 - "$eng" <<'P'
import sys
m={"seq":"a vec buf str que utf","tree":"a avl rbt","ctl":"a pid pid_fuzzy pid_neuro mf fuzzy tf math","stream":"a crc hash utf str"}
print(m[sys.argv[1]])
P
)
for s in $srcs; do clang $CF -std=c11 -w -I/repo/include -c /repo/src/$s.c -o $D/$s.o & done
clang++ $CF -std=c++17 -w -I/repo/include -I$V/sim -c $V/sim/$eng.cc -o $D/eng.o &
wait
clang++ $CF $D/*.o -o $D/bin -lm || exit 2
# workers fork: %m merges by binary signature, one pool of 4 files shared by all processes
LLVM_PROFILE_FILE="$D/p-%4m.profraw" $D/bin batch --prop $p --runs $runs --workers 4 --det 0 --out $D/out --evidence $D/ev.json --known $V/known_findings.txt >/dev/null 2>&1
llvm-profdata-14 merge -o $D/all.profdata $D/*.profraw 2>/dev/null || { echo "no profile data"; exit 2; }
objs=""; for s in $srcs; do objs="$objs /repo/src/$s.c"; done
llvm-cov-14 report $D/bin -instr-profile=$D/all.profdata $objs /repo/include/a/*.h 2>/dev/null | awk 'NR==1 || /^src|^include|^TOTAL/ {printf "%-24s regions %s missed %s (%s)  lines %s missed %s (%s)\n", $1, $2, $3, $4, $8, $9, $10}'
mkdir -p $V/out/cov; llvm-cov-14 show $D/bin -instr-profile=$D/all.profdata $objs /repo/include/a/*.h > $V/out/cov/$p.txt 2>/dev/null
echo "--- unexecuted lines (file:line) in files with any execution:"
# only for files that the property's workload reaches at all (more than a quarter of their lines executed)
awk '/^\/repo\/.*:$/ {f=$0; next} /^ +[0-9]+\| +[0-9.kMG]+\|/ { tot[f]++; split($0, a, "|"); gsub(/ /, "", a[2]); if (a[2] == "0") { miss[f]++; lines[f] = lines[f] f $0 "\n" } } END { for (f in tot) if (miss[f] > 0 && miss[f] * 4 < tot[f] * 3) printf "%s", lines[f] }' $V/out/cov/$p.txt | head -${SHOWN:-80}
rm -rf $D
