#!/bin/sh
# How seed-dependent is detection?  Re-runs the seeded changes with several VERIF_SEED values (quick tier).
#   tools/seed_robustness.sh "2 3 4" [ids...]    -> seeded/SEEDS.txt  (one line per change: detected/total)
V=$(cd "$(dirname "$0")/.." && pwd); cd "$V" || exit 2
seeds=$1; shift
ids="$*"; [ -z "$ids" ] && ids=$(ls seeded | grep -v -E "SUMMARY|SEEDS")
: > seeded/SEEDS.txt.tmp
for id in $ids; do
  prop=$(python3 -c "import json;m=json.load(open('seeded/$id/meta.json'));print(m.get('check_with',m['breaks_property']))")
  hit=0; tot=0; miss=""
  for sd in $seeds; do
    tot=$((tot+1))
    if SEED=$sd tools/try_patch.sh seeded/$id/patch.diff $prop 2>&1 | head -1 | grep -q "^DETECTED"; then hit=$((hit+1)); else miss="$miss $sd"; fi
  done
  echo "$id $prop detected $hit/$tot${miss:+ missed with seed(s):$miss}" | tee -a seeded/SEEDS.txt.tmp
done
mv seeded/SEEDS.txt.tmp seeded/SEEDS.txt
