#!/bin/sh
# Try one hand-written single-line change:  tools/one_mutant.sh <file relative to /repo> <line> '<sed s-expression>' <prop> [<prop> ...]
# Builds the patch in a scratch directory under /tmp and hands it to tools/try_patch.sh; nothing is written to /repo.
set -u
f=$1; l=$2; e=$3; shift 3
V=$(cd "$(dirname "$0")/.." && pwd)
T=$(mktemp -d /tmp/onemut.XXXXXX)
mkdir -p "$T/a/$(dirname "$f")" "$T/b/$(dirname "$f")"
cp "/repo/$f" "$T/a/$f"; cp "/repo/$f" "$T/b/$f"
sed -i "${l}${e}" "$T/b/$f"
(cd "$T" && diff -u "a/$f" "b/$f" > one.diff)
if [ ! -s "$T/one.diff" ]; then echo "NO-CHANGE $f:$l"; rm -rf "$T"; exit 3; fi
grep '^[-+][^-+]' "$T/one.diff"
"$V"/tools/try_patch.sh "$T/one.diff" "$@" | grep -E "^(DETECTED|MISSED|ERROR|VIOLATION)" | cut -c1-220
rm -rf "$T"
