#!/bin/sh
# Regression replays for the defects of DESIGN.md section 6.
#   replays/run_all.sh            -> every replay must PASS on the current /repo (exit 0 = all clean)
#   VERIF_REPO=<pre-fix tree> replays/run_all.sh --expect-fail  -> every replay must reproduce its violation
cd "$(dirname "$0")/.." || exit 2
want=0; [ "$1" = "--expect-fail" ] && want=1
bad=0
for f in replays/*.replay; do
  prop=$(sed -n 's/^property //p' "$f")
  ./check "$prop" --replay "$f" >/dev/null 2>&1; rc=$?
  if [ "$rc" -ne "$want" ]; then echo "UNEXPECTED rc=$rc (want $want): $f"; bad=1; else echo "ok rc=$rc $f"; fi
done
# recorded (unrepaired) findings must still reproduce on the current tree
if [ "$want" -eq 0 ]; then
  for f in replays/known/*.replay; do
    prop=$(sed -n 's/^property //p' "$f")
    ./check "$prop" --replay "$f" >/dev/null 2>&1; rc=$?
    if [ "$rc" -ne 1 ]; then echo "UNEXPECTED rc=$rc (known finding should reproduce): $f"; bad=1; else echo "ok rc=1 (known finding) $f"; fi
  done
fi
exit $bad
